package main

// Engine "sig" (properties C08, C09): executes the cases / perturbation catalogue entries enumerated by TLC from spec/Sig.tla on the
// REAL mpc/bls and mpc/ps packages, through their exported API and byte encodings only, and records one result line per case.
// The results are validated by TLC against spec/SigTrace.tla (which recomputes the expected verdict per case).
//
//   job (stdin):  {"workers": k, "timeout_s": s, "groups": [{"gid","sch","n","t","L","ids","sched","alpha":[hex..],"digests":[hex,hex],
//                   "cases":[{"id", "c": <case record of Sig.tla>}]}]}
//   out (stdout): {"id","c","changed","v1","v2","v3","same","pubeq","stage","eq","err","gid","ms"} per case, then {"e":"summary",...}

import (
	"bytes"
	"context"
	crand "crypto/rand"
	"crypto/sha256"
	"encoding/asn1"
	"encoding/hex"
	"fmt"
	"math/big"
	"math/rand"
	"sort"
	"strings"
	"sync"
	"sync/atomic"
	"time"

	"github.com/IBM/TSS/mpc/bls"
	"github.com/IBM/TSS/mpc/ps"
	math "github.com/IBM/mathlib"
)

func init() {
	commands["sig"] = sigMain
}

var sigCurve = math.Curves[1]

type sigCase struct {
	Sch   string `json:"sch"`
	N     int    `json:"n"`
	T     int    `json:"t"`
	L     int    `json:"L"`
	Ids   []int  `json:"ids"`
	S     []int  `json:"S"`
	Mv    []int  `json:"mv"`
	Obj   string `json:"obj"`
	Field string `json:"field"`
	I     int    `json:"i"`
	J     int    `json:"j"`
	Kind  string `json:"kind"`
	Who   int    `json:"who"`
}

type sigCaseIn struct {
	ID int     `json:"id"`
	C  sigCase `json:"c"`
}

type sigGroup struct {
	Gid     int         `json:"gid"`
	Sch     string      `json:"sch"`
	N       int         `json:"n"`
	T       int         `json:"t"`
	L       int         `json:"L"`
	Ids     []int       `json:"ids"`
	Sched   int64       `json:"sched"`
	Alpha   []string    `json:"alpha"`
	Digests []string    `json:"digests"`
	Cases   []sigCaseIn `json:"cases"`
	// key generation: delivery policy (absent: derived from sched), bag policies allowed, explicit schedule from TLC, id of the
	// record that reports the key generation itself (absent: none)
	DkgPolicy *int     `json:"dkg_policy"`
	Bag       bool     `json:"bag"`
	DkgSched  [][3]int `json:"dkg_sched"`
	DkgID     *int     `json:"dkg_id"`
}

type sigJob struct {
	Probe    bool       `json:"probe"`
	Workers  int        `json:"workers"`
	TimeoutS int        `json:"timeout_s"`
	GraceS   int        `json:"grace_s"`
	Groups   []sigGroup `json:"groups"`
}

type sigOut struct {
	ID      int     `json:"id"`
	C       sigCase `json:"c"`
	Changed bool    `json:"changed"`
	V1      bool    `json:"v1"`
	V2      bool    `json:"v2"`
	V3      bool    `json:"v3"`
	Same    bool    `json:"same"`
	Pubeq   bool    `json:"pubeq"`
	Stage   string  `json:"stage"`
	Eq      string  `json:"eq"`
	Err     string  `json:"err"`
	Gid     int     `json:"gid"`
	Ms      float64 `json:"ms"`
}

type sigNopLogger struct{}

func (sigNopLogger) Debugf(string, ...interface{}) {}
func (sigNopLogger) Infof(string, ...interface{})  {}
func (sigNopLogger) Warnf(string, ...interface{})  {}
func (sigNopLogger) Errorf(string, ...interface{}) {}

// sigTry runs f and converts a panic into an error.
func sigTry(f func() error) (err error, panicked bool) {
	defer func() {
		if r := recover(); r != nil {
			err = fmt.Errorf("panic: %v", r)
			panicked = true
		}
	}()
	return f(), false
}

func sigErrText(err error) string {
	if err == nil {
		return ""
	}
	s := err.Error()
	if len(s) > 160 {
		s = s[:160]
	}
	return s
}

// sigClassify maps the library's error text to the equation label used by spec/Sig.tla.
func sigClassify(err error) string {
	if err == nil {
		return "ok"
	}
	s := err.Error()
	switch {
	case strings.HasPrefix(s, "panic:"):
		return "panic"
	case strings.Contains(s, "u^{x"):
		return "E1"
	case strings.Contains(s, "g^{x"):
		return "E2"
	case strings.Contains(s, "cm^e"):
		return "E3"
	case strings.Contains(s, "unblinded signature is incorrect"):
		return "UNBLIND"
	case strings.Contains(s, "κ is not well formed"):
		return "EK"
	case strings.Contains(s, "ν is not well formed"):
		return "EN"
	case strings.Contains(s, "h^ε is 0"):
		return "H0"
	case strings.Contains(s, "pairing condition unsatisfied"), strings.Contains(s, "signature mismatch"):
		return "PAIR"
	}
	return "other"
}

// ------------------------------------------------------------------------------------------------------------------------------
// in-process DKG: one message pool, one scheduler goroutine that decides which pending message is delivered next.
//   FIFO policies (every sender->receiver link delivers in sending order): 0 seeded random link, 1 lowest link first, 2 highest link
//   first, 3 one party receives only when nothing else is deliverable;
//   bag policies (ANY pending message may be delivered next, the back ends are written for that): 4 seeded random message, 5 newest
//   message first, 6 reveals before commitments before shares;
//   explicit schedule: the deliveries (kind, from, to) in the order given by TLC (spec/Sig.tla, DKG part); the scheduler waits for each
//   message to be produced.
// The order actually executed is recorded and validated by TLC against the DKG model (spec/SigTrace.tla).

type sigDKGParty interface {
	Init(parties []uint16, threshold int, sendMsg func(msg []byte, isBroadcast bool, to uint16))
	OnMsg(msgBytes []byte, from uint16, broadcast bool)
	KeyGen(ctx context.Context) ([]byte, error)
	ThresholdPK() ([]byte, error)
}

type sigPoolMsg struct {
	kind, from, to int // kind: first byte of the message (1 share, 2 commitment, 3 public key); from / to: positions 0..n-1
	data           []byte
	bcast          bool
	seq            int
}

type sigDKGOpts struct {
	seed    int64
	policy  int      // -1: derived from the seed
	bag     bool     // allow the bag policies when the policy is derived from the seed
	sched   [][3]int // explicit schedule (kind, from, to), positions 1..n; nil: policy
	timeout time.Duration
	grace   time.Duration // nothing deliverable, nothing produced and not everybody finished for this long: stuck
}

type sigDKGResult struct {
	shares  [][]byte
	pubs    [][]byte
	errText string
	done    []bool   // KeyGen returned without error
	order   [][3]int // deliveries in the order executed (kind, from, to), positions 1..n
	policy  int
	stuck   bool // ended by the grace period (every produced message delivered or the scheduled message never produced)
}

const sigNumFifoPolicies, sigNumPolicies = 4, 7

func sigRunDKG(parties []sigDKGParty, ids []uint16, t int, o sigDKGOpts) *sigDKGResult {
	n := len(parties)
	res := &sigDKGResult{done: make([]bool, n)}
	var mu sync.Mutex
	var pool []sigPoolMsg
	seq := 0
	stop := false
	wake := make(chan struct{}, 1)
	poke := func() {
		select {
		case wake <- struct{}{}:
		default:
		}
	}
	pos := make(map[uint16]int)
	for i, id := range ids {
		pos[id] = i
	}
	for i := range parties {
		from := i
		parties[i].Init(ids, t, func(msg []byte, isBroadcast bool, to uint16) {
			cp := append([]byte(nil), msg...)
			kind := 0
			if len(cp) > 0 {
				kind = int(cp[0])
			}
			mu.Lock()
			if isBroadcast {
				for j := 0; j < n; j++ {
					if j != from {
						pool = append(pool, sigPoolMsg{kind, from, j, cp, true, seq})
						seq++
					}
				}
			} else {
				pool = append(pool, sigPoolMsg{kind, from, pos[to], cp, false, seq})
				seq++
			}
			mu.Unlock()
			poke()
		})
	}
	rng := rand.New(rand.NewSource(o.seed))
	policy := o.policy
	if policy < 0 {
		if o.bag {
			policy = int(uint64(o.seed) % sigNumPolicies)
		} else {
			policy = int(uint64(o.seed) % sigNumFifoPolicies)
		}
	}
	res.policy = policy
	starved := rng.Intn(n)
	ctx, cancel := context.WithTimeout(context.Background(), o.timeout)
	defer cancel()
	// choose: index into pool of the message to deliver next, -1 if none is deliverable now
	step := 0
	choose := func() int {
		if len(pool) == 0 {
			return -1
		}
		if step < len(o.sched) {
			w := o.sched[step]
			for i, m := range pool {
				if m.kind == w[0] && m.from == w[1]-1 && m.to == w[2]-1 {
					return i
				}
			}
			return -1
		}
		var cand []int
		if policy < sigNumFifoPolicies && o.sched == nil {
			oldest := map[[2]int]int{}
			for i, m := range pool {
				k := [2]int{m.from, m.to}
				if j, ok := oldest[k]; !ok || m.seq < pool[j].seq {
					oldest[k] = i
				}
			}
			for _, i := range oldest {
				cand = append(cand, i)
			}
		} else {
			for i := range pool {
				cand = append(cand, i)
			}
		}
		sort.Slice(cand, func(a, b int) bool {
			x, y := pool[cand[a]], pool[cand[b]]
			if x.from != y.from {
				return x.from < y.from
			}
			if x.to != y.to {
				return x.to < y.to
			}
			return x.seq < y.seq
		})
		switch policy {
		case 1:
			return cand[0]
		case 2:
			return cand[len(cand)-1]
		case 3:
			var rest []int
			for _, i := range cand {
				if pool[i].to != starved {
					rest = append(rest, i)
				}
			}
			if len(rest) > 0 {
				return rest[rng.Intn(len(rest))]
			}
			return cand[rng.Intn(len(cand))]
		case 5:
			best := cand[0]
			for _, i := range cand {
				if pool[i].seq > pool[best].seq {
					best = i
				}
			}
			return best
		case 6:
			top := 0
			for _, i := range cand {
				if pool[i].kind > top {
					top = pool[i].kind
				}
			}
			var rest []int
			for _, i := range cand {
				if pool[i].kind == top {
					rest = append(rest, i)
				}
			}
			return rest[rng.Intn(len(rest))]
		default: // 0, 4 (and whatever is left after an explicit schedule)
			return cand[rng.Intn(len(cand))]
		}
	}
	schedDone := make(chan struct{})
	go func() {
		defer close(schedDone)
		for {
			mu.Lock()
			if stop {
				mu.Unlock()
				return
			}
			i := choose()
			if i < 0 {
				mu.Unlock()
				select {
				case <-wake:
				case <-time.After(o.grace):
					mu.Lock()
					if !stop && choose() < 0 {
						res.stuck = true
						mu.Unlock()
						cancel() // the parties that still wait return an error
						return
					}
					mu.Unlock()
				}
				continue
			}
			m := pool[i]
			pool = append(pool[:i], pool[i+1:]...)
			step++
			res.order = append(res.order, [3]int{m.kind, m.from + 1, m.to + 1})
			mu.Unlock()
			func() {
				defer func() {
					if r := recover(); r != nil {
						mu.Lock()
						if res.errText == "" {
							res.errText = fmt.Sprintf("panic in OnMsg of party %d: %v", ids[m.to], r)
						}
						mu.Unlock()
					}
				}()
				parties[m.to].OnMsg(m.data, ids[m.from], m.bcast)
			}()
		}
	}()
	shares := make([][]byte, n)
	errs := make([]string, n)
	var wg sync.WaitGroup
	for i := range parties {
		wg.Add(1)
		go func(i int) {
			defer wg.Done()
			defer func() {
				if r := recover(); r != nil {
					errs[i] = fmt.Sprintf("panic in KeyGen of party %d: %v", ids[i], r)
				}
			}()
			sh, err := parties[i].KeyGen(ctx)
			if err != nil {
				errs[i] = fmt.Sprintf("KeyGen of party %d: %v", ids[i], err)
				return
			}
			shares[i] = sh
			res.done[i] = true
		}(i)
	}
	wg.Wait()
	mu.Lock()
	stop = true
	left := len(pool)
	mu.Unlock()
	poke()
	<-schedDone
	mu.Lock()
	e := res.errText
	mu.Unlock()
	if e == "" && ctx.Err() != nil && !res.stuck {
		e = "timeout: key generation did not complete in " + o.timeout.String()
	}
	for _, x := range errs {
		if x != "" && e == "" {
			e = x
		}
	}
	if e == "" && left > 0 {
		// everybody finished although messages were still pending: harmless, but the recorded order then is not a complete schedule
		e = ""
	}
	res.errText = e
	if e != "" {
		return res
	}
	res.shares = shares
	res.pubs = make([][]byte, n)
	for i := range parties {
		var p []byte
		err, _ := sigTry(func() error {
			var err error
			p, err = parties[i].ThresholdPK()
			return err
		})
		if err != nil {
			res.errText = fmt.Sprintf("ThresholdPK of party %d: %v", ids[i], err)
			return res
		}
		res.pubs[i] = p
	}
	return res
}

// sigDKG runs a key generation; a run that hit the overall timeout is repeated once with another seed; a run that got stuck (nothing
// deliverable, not everybody finished) is repeated once, alone in its order of deliveries and with a three times longer grace period,
// and counts as stuck only if that reproduces it.
func sigDKG(mk func() []sigDKGParty, ids []uint16, t int, o sigDKGOpts) *sigDKGResult {
	r := sigRunDKG(mk(), ids, t, o)
	if strings.HasPrefix(r.errText, "timeout") {
		o2 := o
		o2.seed += 7919
		r = sigRunDKG(mk(), ids, t, o2)
	}
	if r.stuck {
		o2 := o
		o2.sched = r.order
		o2.grace = 3 * o.grace
		r2 := sigRunDKG(mk(), ids, t, o2)
		if !r2.stuck && r2.errText == "" {
			atomic.AddInt64(&sigStuckNotReproduced, 1)
			return r2
		}
		r2.policy = r.policy
		return r2
	}
	return r
}

// key generations that looked stuck once and completed when their order of deliveries was repeated (machine load)
var sigStuckNotReproduced int64

func (r *sigDKGResult) allDone() bool {
	for _, d := range r.done {
		if !d {
			return false
		}
	}
	return true
}

func sigAllEqual(bs [][]byte) bool {
	for i := 1; i < len(bs); i++ {
		if !bytes.Equal(bs[0], bs[i]) {
			return false
		}
	}
	return len(bs) > 0
}

func sigU16(xs []int) []uint16 {
	r := make([]uint16, len(xs))
	for i, x := range xs {
		r[i] = uint16(x)
	}
	return r
}

func sigCopy(b []byte) []byte { return append([]byte(nil), b...) }

func sigCopy2(bs [][]byte) [][]byte {
	r := make([][]byte, len(bs))
	for i := range bs {
		r[i] = sigCopy(bs[i])
	}
	return r
}

func sigEq2(a, b [][]byte) bool {
	if len(a) != len(b) {
		return false
	}
	for i := range a {
		if !bytes.Equal(a[i], b[i]) {
			return false
		}
	}
	return true
}

// sigSameCoefficients: do the two lists of evaluation points give every position the same Lagrange coefficient (at zero)? A permutation
// of the signer list with that property combines the shares exactly as before, i.e. it is no alteration (exact rational arithmetic).
func sigSameCoefficients(a, b []int64) bool {
	if len(a) != len(b) {
		return false
	}
	lag := func(i int64, pts []int64) *big.Rat {
		r := big.NewRat(1, 1)
		for _, j := range pts {
			if j != i {
				r.Mul(r, big.NewRat(j, j-i))
			}
		}
		return r
	}
	for q := range a {
		if lag(a[q], a).Cmp(lag(b[q], b)) != 0 {
			return false
		}
	}
	return true
}

// ------------------------------------------------------------------------------------------------------------------------------
// algebraic perturbation of encoded values

const (
	sigG1 = iota
	sigG2
	sigZr
)

// sigPertValue alters one encoded value: "addgen" adds the group generator to a point, "plus1" adds 1 (mod group order) to a scalar,
// "double" multiplies by 2, "cross"/"fresh" substitute the given other value.
func sigPertValue(typ int, b []byte, kind string, other []byte) ([]byte, error) {
	if kind == "cross" || kind == "fresh" {
		if other == nil {
			return nil, fmt.Errorf("no substitute value")
		}
		return sigCopy(other), nil
	}
	two := sigCurve.NewZrFromInt(2)
	switch typ {
	case sigG1:
		p, err := sigCurve.NewG1FromBytes(b)
		if err != nil {
			return nil, err
		}
		if kind == "double" {
			return p.Mul(two).Bytes(), nil
		}
		p.Add(sigCurve.GenG1)
		return p.Bytes(), nil
	case sigG2:
		p, err := sigCurve.NewG2FromBytes(b)
		if err != nil {
			return nil, err
		}
		if kind == "double" {
			return p.Mul(two).Bytes(), nil
		}
		p.Add(sigCurve.GenG2)
		return p.Bytes(), nil
	default:
		z := sigCurve.NewZrFromBytes(b)
		if kind == "double" {
			return sigCurve.ModMul(z, two, sigCurve.GroupOrder).Bytes(), nil
		}
		return sigCurve.ModAdd(z, sigCurve.NewZrFromInt(1), sigCurve.GroupOrder).Bytes(), nil
	}
}

func sigPertScalarField(typ int, f *[]byte, kind string, other []byte) error {
	nb, err := sigPertValue(typ, *f, kind, other)
	if err != nil {
		return err
	}
	*f = nb
	return nil
}

func sigPertVecField(typ int, f [][]byte, i, j int, kind string, other [][]byte) error {
	if i < 1 || i > len(f) {
		return fmt.Errorf("index %d out of range (%d entries)", i, len(f))
	}
	if kind == "swap" {
		if j < 1 || j > len(f) {
			return fmt.Errorf("index %d out of range (%d entries)", j, len(f))
		}
		f[i-1], f[j-1] = f[j-1], f[i-1]
		return nil
	}
	var o []byte
	if other != nil && i <= len(other) {
		o = other[i-1]
	}
	nb, err := sigPertValue(typ, f[i-1], kind, o)
	if err != nil {
		return err
	}
	f[i-1] = nb
	return nil
}

// mirror structures of the ASN.1 encodings of mpc/ps (the objects themselves have unexported fields)
type sigRawBlindSig struct {
	CorrectFormProof []byte
	CM               []byte
	MPrime           []byte
	U                []byte
	A, B             [][]byte
}

type sigRawCorrectProof struct {
	X, Y [][]byte
	S    []byte
	Z    []byte
	D, F [][]byte
}

type sigRawSigPok struct {
	Data [][]byte
}

type sigRawPsi struct {
	X     [][]byte
	Y     []byte
	Gamma []byte
	Phi   []byte
}

type sigRawSignature struct {
	A, B []byte
}

type sigRawXYs struct {
	X  []byte
	Ys [][]byte
}

type sigRawThresholdPK struct {
	TPK        []byte
	PublicKeys [][]byte
}

type sigRawBlsPP struct {
	Parties     []int
	PublicKeys  [][]byte
	ThresholdPK []byte
}

func sigUnmarshal(b []byte, v interface{}) error {
	rest, err := asn1.Unmarshal(b, v)
	if err != nil {
		return err
	}
	if len(rest) != 0 {
		return fmt.Errorf("trailing bytes")
	}
	return nil
}

func sigMarshal(v interface{}) []byte {
	b, err := asn1.Marshal(v)
	if err != nil {
		fatal("sig: asn1 marshal: %v", err)
	}
	return b
}

// sigPertRequest alters one field of an encoded blinded signing request.
func sigPertRequest(raw, other []byte, field string, i, j int, kind string) ([]byte, error) {
	var r, o sigRawBlindSig
	var p, op sigRawCorrectProof
	if err := sigUnmarshal(raw, &r); err != nil {
		return nil, err
	}
	if err := sigUnmarshal(r.CorrectFormProof, &p); err != nil {
		return nil, err
	}
	if !bytes.Equal(sigMarshal(p), r.CorrectFormProof) || !bytes.Equal(sigMarshal(r), raw) {
		return nil, fmt.Errorf("request encoding does not round-trip through the mirror structures")
	}
	if other != nil {
		if err := sigUnmarshal(other, &o); err != nil {
			return nil, err
		}
		if err := sigUnmarshal(o.CorrectFormProof, &op); err != nil {
			return nil, err
		}
	}
	var err error
	switch field {
	case "cm":
		err = sigPertScalarField(sigG1, &r.CM, kind, o.CM)
	case "u":
		err = sigPertScalarField(sigG1, &r.U, kind, o.U)
	case "mprime":
		err = sigPertScalarField(sigZr, &r.MPrime, kind, o.MPrime)
	case "s":
		err = sigPertScalarField(sigG1, &p.S, kind, op.S)
	case "z":
		err = sigPertScalarField(sigZr, &p.Z, kind, op.Z)
	case "a":
		err = sigPertVecField(sigG1, r.A, i, j, kind, o.A)
	case "b":
		err = sigPertVecField(sigG1, r.B, i, j, kind, o.B)
	case "d":
		err = sigPertVecField(sigG1, p.D, i, j, kind, op.D)
	case "f":
		err = sigPertVecField(sigG1, p.F, i, j, kind, op.F)
	case "x":
		err = sigPertVecField(sigZr, p.X, i, j, kind, op.X)
	case "y":
		err = sigPertVecField(sigZr, p.Y, i, j, kind, op.Y)
	default:
		err = fmt.Errorf("unknown request field %q", field)
	}
	if err != nil {
		return nil, err
	}
	r.CorrectFormProof = sigMarshal(p)
	return sigMarshal(r), nil
}

// sigPertProof alters one field of an encoded proof of knowledge.
func sigPertProof(raw, other []byte, field string, i, j int, kind string) ([]byte, error) {
	var r, o sigRawSigPok
	var p, op sigRawPsi
	if err := sigUnmarshal(raw, &r); err != nil {
		return nil, err
	}
	if len(r.Data) != 5 {
		return nil, fmt.Errorf("proof has %d components", len(r.Data))
	}
	if err := sigUnmarshal(r.Data[0], &p); err != nil {
		return nil, err
	}
	if !bytes.Equal(sigMarshal(p), r.Data[0]) || !bytes.Equal(sigMarshal(r), raw) {
		return nil, fmt.Errorf("proof encoding does not round-trip through the mirror structures")
	}
	o.Data = make([][]byte, 5)
	if other != nil {
		if err := sigUnmarshal(other, &o); err != nil {
			return nil, err
		}
		if len(o.Data) != 5 {
			return nil, fmt.Errorf("other proof has %d components", len(o.Data))
		}
		if err := sigUnmarshal(o.Data[0], &op); err != nil {
			return nil, err
		}
	}
	var err error
	switch field {
	case "x":
		err = sigPertVecField(sigZr, p.X, i, j, kind, op.X)
	case "y":
		err = sigPertScalarField(sigZr, &p.Y, kind, op.Y)
	case "gamma":
		err = sigPertScalarField(sigG2, &p.Gamma, kind, op.Gamma)
	case "phi":
		err = sigPertScalarField(sigG1, &p.Phi, kind, op.Phi)
	case "heps":
		err = sigPertScalarField(sigG1, &r.Data[1], kind, o.Data[1])
	case "hpeps":
		err = sigPertScalarField(sigG1, &r.Data[2], kind, o.Data[2])
	case "nu":
		err = sigPertScalarField(sigG1, &r.Data[3], kind, o.Data[3])
	case "kappa":
		err = sigPertScalarField(sigG2, &r.Data[4], kind, o.Data[4])
	default:
		err = fmt.Errorf("unknown proof field %q", field)
	}
	if err != nil {
		return nil, err
	}
	r.Data[0] = sigMarshal(p)
	return sigMarshal(r), nil
}

// sigPertPK alters one component of an encoded PS public key (X, Ys).
func sigPertPK(raw, other []byte, field string, i int, kind string) ([]byte, error) {
	var r, o sigRawXYs
	if err := sigUnmarshal(raw, &r); err != nil {
		return nil, err
	}
	if !bytes.Equal(sigMarshal(r), raw) {
		return nil, fmt.Errorf("public key encoding does not round-trip through the mirror structure")
	}
	if other != nil {
		if err := sigUnmarshal(other, &o); err != nil {
			return nil, err
		}
	}
	var err error
	switch field {
	case "X":
		err = sigPertScalarField(sigG2, &r.X, kind, o.X)
	case "Y":
		err = sigPertVecField(sigG2, r.Ys, i, 0, kind, o.Ys)
	default:
		err = fmt.Errorf("unknown key field %q", field)
	}
	if err != nil {
		return nil, err
	}
	return sigMarshal(r), nil
}

// ------------------------------------------------------------------------------------------------------------------------------
// PS sessions

type sigPsSession struct {
	n, t, L int
	ids     []uint16
	shares  [][]byte
	pub     []byte // ThresholdPK bytes (as reported by the first party)
	pubeq   bool
	err     string
	signers []*ps.TPS
	dkg     *sigDKGResult
}

func sigNewTPS(id uint16, L int) *ps.TPS {
	return &ps.TPS{Curve: sigCurve, Party: id, Logger: sigNopLogger{}, MessageLength: L}
}

func sigNewPsSession(n, t, L int, ids []uint16, o sigDKGOpts) *sigPsSession {
	s := &sigPsSession{n: n, t: t, L: L, ids: ids}
	s.dkg = sigDKG(func() []sigDKGParty {
		parties := make([]sigDKGParty, n)
		for i := range parties {
			parties[i] = sigNewTPS(ids[i], L)
		}
		return parties
	}, ids, t, o)
	s.shares, s.err = s.dkg.shares, s.dkg.errText
	pubs := s.dkg.pubs
	if s.err != "" {
		return s
	}
	s.pub = pubs[0]
	s.pubeq = sigAllEqual(pubs)
	s.signers = make([]*ps.TPS, n)
	for i := range s.signers {
		sg, err := s.freshSigner(i)
		if err != nil {
			s.err = fmt.Sprintf("SetShareData of party %d: %v", ids[i], err)
			return s
		}
		s.signers[i] = sg
	}
	return s
}

// freshSigner loads the stored share data of the party at position i into a new instance (as the repository's test does).
func (s *sigPsSession) freshSigner(i int) (*ps.TPS, error) {
	p := sigNewTPS(s.ids[i], s.L)
	p.Init(s.ids, s.t, func([]byte, bool, uint16) {})
	if err := p.SetShareData(sigCopy(s.shares[i])); err != nil {
		return nil, err
	}
	return p, nil
}

func (s *sigPsSession) posOf(id int) int {
	for i, x := range s.ids {
		if int(x) == id {
			return i
		}
	}
	return -1
}

func sigNewProver(L int, pub []byte, ids []uint16) (*ps.Prover, error) {
	p := &ps.Prover{Logger: sigNopLogger{}}
	err, _ := sigTry(func() error { return p.Init(sigCurve, L, sigCopy(pub), ids) })
	return p, err
}

func sigNewPsVerifier(L int, pub []byte) (*ps.Verifier, error) {
	v := &ps.Verifier{}
	err, _ := sigTry(func() error { return v.Init(sigCurve, L, sigCopy(pub)) })
	return v, err
}

// sigPsBase holds the genuine objects of one blind-sign-unblind-prove pipeline.
type sigPsBase struct {
	prover *ps.Prover
	msg    [][]byte
	req    []byte
	secret *ps.UnblindingSecret
	sigs   [][]byte
	wits   []ps.SignatureWitness
	proof  []byte
	// first failing step ("" if everything succeeded)
	stage string
	err   error
}

func sigSign(p *ps.TPS, req []byte) ([]byte, error) {
	var out []byte
	err, _ := sigTry(func() error {
		var e error
		out, e = p.Sign(context.Background(), req)
		return e
	})
	return out, err
}

func sigUnBlind(p *ps.Prover, party uint16, sig []byte, secret *ps.UnblindingSecret) (ps.SignatureWitness, error) {
	var w ps.SignatureWitness
	err, _ := sigTry(func() error {
		var e error
		w, e = p.UnBlind(party, sig, secret)
		return e
	})
	return w, err
}

func sigProve(p *ps.Prover, secret *ps.UnblindingSecret, signers []uint16, wits []ps.SignatureWitness) ([]byte, error) {
	var out []byte
	err, _ := sigTry(func() error {
		pok := p.ProveKnowledgeOfSignature(secret, signers, wits)
		out = pok.Bytes()
		return nil
	})
	return out, err
}

func sigPsVerify(v *ps.Verifier, proof []byte) error {
	err, _ := sigTry(func() error { return v.Verify(proof) })
	return err
}

// buildBase runs the honest pipeline for the signers S (party identifiers) and the given message; upTo: "unblind" stops before the
// aggregation (used when the case itself aggregates), "verify" runs everything.
func (s *sigPsSession) buildBase(S []int, msg [][]byte, upTo string) *sigPsBase {
	b := &sigPsBase{msg: msg}
	var err error
	b.prover, err = sigNewProver(s.L, s.pub, s.ids)
	if err != nil {
		b.stage, b.err = "prover-init", err
		return b
	}
	err, _ = sigTry(func() error {
		bs, secret := b.prover.Blind(msg)
		b.req = bs.Bytes()
		b.secret = &secret
		return nil
	})
	if err != nil {
		b.stage, b.err = "blind", err
		return b
	}
	for _, id := range S {
		sg, err := sigSign(s.signers[s.posOf(id)], b.req)
		if err != nil {
			b.stage, b.err = "sign", err
			return b
		}
		b.sigs = append(b.sigs, sg)
	}
	for q, id := range S {
		w, err := sigUnBlind(b.prover, uint16(id), b.sigs[q], b.secret)
		if err != nil {
			b.stage, b.err = "unblind", err
			return b
		}
		b.wits = append(b.wits, w)
	}
	if upTo == "unblind" {
		return b
	}
	b.proof, err = sigProve(b.prover, b.secret, sigU16(S), b.wits)
	if err != nil {
		b.stage, b.err = "aggregate", err
		return b
	}
	return b
}

type sigPsGroup struct {
	g      *sigGroup
	alpha  [][]byte
	a, b   *sigPsSession // b: another DKG session (cross-session substitutions), created on demand
	bases  map[string]*sigPsBase
	basesB map[string]*sigPsBase
	opts   sigDKGOpts
}

func (pg *sigPsGroup) message(mv []int) [][]byte {
	m := make([][]byte, len(mv))
	for i, a := range mv {
		m[i] = sigCopy(pg.alpha[a-1])
	}
	return m
}

func (pg *sigPsGroup) sessB() *sigPsSession {
	if pg.b == nil {
		o := pg.opts
		o.seed, o.sched = o.seed+104729, nil
		pg.b = sigNewPsSession(pg.g.N, pg.g.T, pg.g.L, sigU16(pg.g.Ids), o)
	}
	return pg.b
}

func (pg *sigPsGroup) base(c *sigCase) *sigPsBase {
	k := fmt.Sprint(c.S, c.Mv)
	if b, ok := pg.bases[k]; ok {
		return b
	}
	b := pg.a.buildBase(c.S, pg.message(c.Mv), "verify")
	pg.bases[k] = b
	return b
}

func (pg *sigPsGroup) baseB(c *sigCase) *sigPsBase {
	k := fmt.Sprint(c.S, c.Mv)
	if b, ok := pg.basesB[k]; ok {
		return b
	}
	sb := pg.sessB()
	var b *sigPsBase
	if sb.err != "" {
		b = &sigPsBase{stage: "dkg", err: fmt.Errorf("%s", sb.err)}
	} else {
		b = sb.buildBase(c.S, pg.message(c.Mv), "verify")
	}
	pg.basesB[k] = b
	return b
}

// verdict3 fills v1 (first call), v2 (second call, same object), v3 (same bytes, fresh instance) and the classification of the first.
func (o *sigOut) verdict3(stage string, e1, e2, e3 error) {
	o.V1, o.V2, o.V3 = e1 == nil, e2 == nil, e3 == nil
	o.Stage = stage
	o.Eq = sigClassify(e1)
	o.Err = sigErrText(e1)
	if e1 == nil && e2 != nil {
		o.Err = "second call: " + sigErrText(e2)
	} else if e1 == nil && e3 != nil {
		o.Err = "re-parsed: " + sigErrText(e3)
	}
}

func (o *sigOut) setupFailed(what string, err error) {
	// a genuine preparatory step failed: reported as a rejection at that step (the monitors decide what that means for the case)
	o.V1, o.V2, o.V3 = false, false, false
	o.Stage = what
	o.Eq = sigClassify(err)
	o.Err = "setup: " + sigErrText(err)
	o.Same = true
}

func (pg *sigPsGroup) run(ci sigCaseIn) sigOut {
	c := ci.C
	o := sigOut{ID: ci.ID, C: c, Gid: pg.g.Gid, Same: true, Pubeq: true}
	s := pg.a
	if s.err != "" {
		o.setupFailed("dkg", fmt.Errorf("%s", s.err)) // (no public material to compare: reported by the record of the key generation)
		return o
	}
	o.Pubeq = s.pubeq
	switch c.Obj {
	case "none":
		pg.runGenuine(&c, &o)
	case "req":
		pg.runReq(&c, &o)
	case "objsign":
		pg.runObjSign(&c, &o)
	case "sig":
		pg.runSig(&c, &o)
	case "ppk":
		pg.runPpk(&c, &o)
	case "wit", "wassign":
		pg.runWit(&c, &o)
	case "fewer":
		pg.runFewer(&c, &o)
	case "pok":
		pg.runPok(&c, &o)
	case "objverify":
		pg.runObjVerify(&c, &o)
	case "tpk":
		pg.runTpk(&c, &o)
	case "mall":
		pg.runMall(&c, &o)
	case "forge":
		pg.runForge(&c, &o)
	case "oracle":
		pg.runOracle(&c, &o)
	default:
		fatal("sig: unknown ps object %q", c.Obj)
	}
	return o
}

// the honest pipeline; every step twice (same object) and once more with fresh instances from the same bytes
func (pg *sigPsGroup) runGenuine(c *sigCase, o *sigOut) {
	s := pg.a
	b := s.buildBase(c.S, pg.message(c.Mv), "verify")
	if b.stage != "" {
		o.V1, o.V2, o.V3 = false, false, false
		o.Stage, o.Eq, o.Err = b.stage, sigClassify(b.err), sigErrText(b.err)
		return
	}
	req0, proof0, sigs0 := sigCopy(b.req), sigCopy(b.proof), sigCopy2(b.sigs)
	v, err := sigNewPsVerifier(s.L, s.pub)
	if err != nil {
		o.verdict3("verifier-init", err, err, err)
		return
	}
	e1 := sigPsVerify(v, b.proof)
	// second time: sign the same request bytes at the same signer instances, verify the same proof with the same verifier
	var e2 error
	for _, id := range c.S {
		if _, err := sigSign(s.signers[s.posOf(id)], b.req); err != nil {
			e2 = err
			break
		}
	}
	if e2 == nil {
		e2 = sigPsVerify(v, b.proof)
	}
	// third time: fresh signer instances from the stored share data, fresh verifier, copies of the bytes
	var e3 error
	for _, id := range c.S {
		fs, err := s.freshSigner(s.posOf(id))
		if err == nil {
			_, err = sigSign(fs, sigCopy(req0))
		}
		if err != nil {
			e3 = err
			break
		}
	}
	if e3 == nil {
		v3, err := sigNewPsVerifier(s.L, s.pub)
		if err == nil {
			err = sigPsVerify(v3, sigCopy(proof0))
		}
		e3 = err
	}
	o.verdict3("verify", e1, e2, e3)
	o.Same = bytes.Equal(req0, b.req) && bytes.Equal(proof0, b.proof) && sigEq2(sigs0, b.sigs)
}

func (pg *sigPsGroup) runReq(c *sigCase, o *sigOut) {
	s := pg.a
	b := pg.base(c)
	if b.stage != "" {
		o.setupFailed(b.stage, b.err)
		return
	}
	var other []byte
	if c.Kind == "cross" {
		bb := pg.baseB(c)
		if bb.stage != "" {
			o.setupFailed(bb.stage, bb.err)
			return
		}
		other = bb.req
	}
	alt, err := sigPertRequest(b.req, other, c.Field, c.I, c.J, c.Kind)
	if err != nil {
		fatal("sig: perturbing request: %v", err)
	}
	o.Changed = !bytes.Equal(alt, b.req)
	alt0 := sigCopy(alt)
	signer := s.signers[s.posOf(c.S[c.Who-1])]
	_, e1 := sigSign(signer, alt)
	_, e2 := sigSign(signer, alt)
	var e3 error
	fs, err := s.freshSigner(s.posOf(c.S[c.Who-1]))
	if err == nil {
		_, err = sigSign(fs, sigCopy(alt0))
	}
	e3 = err
	o.verdict3("sign", e1, e2, e3)
	o.Same = bytes.Equal(alt, alt0)
}

// the same parsed request OBJECT handed to ps.SignBlindSignature twice (exported functions only)
func (pg *sigPsGroup) runObjSign(c *sigCase, o *sigOut) {
	msg := pg.message(c.Mv)
	var e1, e2, e3 error
	var b0, b1, b2 []byte
	err, _ := sigTry(func() error {
		pp := ps.Setup(sigCurve, c.L)
		sk, pk := ps.LocalKeyGen(pp)
		m := make([]*math.Zr, len(msg))
		for i := range m {
			m[i] = sigCurve.HashToZr(msg[i])
		}
		bs, _ := ps.Blind(&pp, sigCurve, m)
		b0 = bs.Bytes()
		e1, _ = sigTry(func() error { _, e := ps.SignBlindSignature(&pp, bs, sk); return e })
		b1 = bs.Bytes()
		e2, _ = sigTry(func() error { _, e := ps.SignBlindSignature(&pp, bs, sk); return e })
		b2 = bs.Bytes()
		// the original bytes re-parsed: through a TPS instance that holds the same key
		tp := sigNewTPS(1, c.L)
		tp.Init([]uint16{1}, 1, func([]byte, bool, uint16) {})
		sd := sigMarshal(ps.StoredData{Sk: sk.Bytes(), PublicKeys: [][]byte{pk.Bytes()}, ThresholdPK: pk.Bytes()})
		if e := tp.SetShareData(sd); e != nil {
			return e
		}
		_, e3 = sigSign(tp, sigCopy(b0))
		return nil
	})
	if err != nil {
		o.setupFailed("objsign-setup", err)
		return
	}
	o.verdict3("sign", e1, e2, e3)
	if e1 == nil && e2 != nil {
		o.Eq = sigClassify(e2)
	}
	o.Same = bytes.Equal(b0, b1) && bytes.Equal(b0, b2)
}

func (pg *sigPsGroup) runSig(c *sigCase, o *sigOut) {
	s := pg.a
	b := pg.base(c)
	if b.stage != "" {
		o.setupFailed(b.stage, b.err)
		return
	}
	sg := b.sigs[c.Who-1]
	party := uint16(c.S[c.Who-1])
	alt := sigCopy(sg)
	if c.Kind == "othersigner" {
		party = uint16(c.S[c.I-1])
		o.Changed = party != uint16(c.S[c.Who-1])
	} else {
		var r, ob sigRawSignature
		if err := sigUnmarshal(sg, &r); err != nil {
			fatal("sig: partial signature encoding: %v", err)
		}
		if c.Kind == "cross" {
			bb := pg.baseB(c)
			if bb.stage != "" {
				o.setupFailed(bb.stage, bb.err)
				return
			}
			if err := sigUnmarshal(bb.sigs[c.Who-1], &ob); err != nil {
				fatal("sig: partial signature encoding: %v", err)
			}
		}
		var err error
		switch c.Field {
		case "a":
			err = sigPertScalarField(sigG1, &r.A, c.Kind, ob.A)
		case "b":
			err = sigPertScalarField(sigG1, &r.B, c.Kind, ob.B)
		default:
			err = fmt.Errorf("unknown signature field %q", c.Field)
		}
		if err != nil {
			fatal("sig: perturbing partial signature: %v", err)
		}
		alt = sigMarshal(r)
		o.Changed = !bytes.Equal(alt, sg)
	}
	alt0 := sigCopy(alt)
	_, e1 := sigUnBlind(b.prover, party, alt, b.secret)
	_, e2 := sigUnBlind(b.prover, party, alt, b.secret)
	p3, err := sigNewProver(s.L, s.pub, s.ids)
	if err == nil {
		_, err = sigUnBlind(p3, party, sigCopy(alt0), b.secret)
	}
	o.verdict3("unblind", e1, e2, err)
	o.Same = bytes.Equal(alt, alt0)
}

func (pg *sigPsGroup) runPpk(c *sigCase, o *sigOut) {
	s := pg.a
	b := pg.base(c)
	if b.stage != "" {
		o.setupFailed(b.stage, b.err)
		return
	}
	var tp, otp sigRawThresholdPK
	if err := sigUnmarshal(s.pub, &tp); err != nil {
		fatal("sig: public parameter encoding: %v", err)
	}
	pos := s.posOf(c.S[c.Who-1])
	var other []byte
	if c.Kind == "cross" {
		sb := pg.sessB()
		if sb.err != "" {
			o.setupFailed("dkg", fmt.Errorf("%s", sb.err))
			return
		}
		if err := sigUnmarshal(sb.pub, &otp); err != nil {
			fatal("sig: public parameter encoding: %v", err)
		}
		other = otp.PublicKeys[pos]
	}
	alt, err := sigPertPK(tp.PublicKeys[pos], other, c.Field, c.I, c.Kind)
	if err != nil {
		fatal("sig: perturbing party key: %v", err)
	}
	o.Changed = !bytes.Equal(alt, tp.PublicKeys[pos])
	tp.PublicKeys[pos] = alt
	pub := sigMarshal(tp)
	pub0 := sigCopy(pub)
	party := uint16(c.S[c.Who-1])
	var e1, e2, e3 error
	p, err := sigNewProver(s.L, pub, s.ids)
	if err != nil {
		e1, e2 = err, err
	} else {
		_, e1 = sigUnBlind(p, party, b.sigs[c.Who-1], b.secret)
		_, e2 = sigUnBlind(p, party, b.sigs[c.Who-1], b.secret)
	}
	p3, err := sigNewProver(s.L, sigCopy(pub0), s.ids)
	if err == nil {
		_, err = sigUnBlind(p3, party, sigCopy(b.sigs[c.Who-1]), b.secret)
	}
	e3 = err
	o.verdict3("unblind", e1, e2, e3)
	o.Same = bytes.Equal(pub, pub0)
}

func sigPertWitness(w ps.SignatureWitness, kind string) ps.SignatureWitness {
	g := math.G1(w)
	p := (&g).Copy()
	if kind == "double" {
		p = p.Mul(sigCurve.NewZrFromInt(2))
	} else {
		p.Add(sigCurve.GenG1)
	}
	return ps.SignatureWitness(*p)
}

func sigWitBytes(ws []ps.SignatureWitness) [][]byte {
	r := make([][]byte, len(ws))
	for i := range ws {
		g := math.G1(ws[i])
		r[i] = (&g).Bytes()
	}
	return r
}

// proveAndVerify: aggregate the given witnesses under the given signer list, prove, verify (twice + fresh verifier)
func (pg *sigPsGroup) proveAndVerify(b *sigPsBase, signers []uint16, wits []ps.SignatureWitness, o *sigOut) {
	s := pg.a
	w0 := sigWitBytes(wits)
	proof, err := sigProve(b.prover, b.secret, signers, wits)
	if err != nil {
		o.verdict3("aggregate", err, err, err)
		// a panic is the same every time: confirm with a second attempt
		_, err2 := sigProve(b.prover, b.secret, signers, wits)
		o.V2 = err2 == nil
		o.Same = sigEq2(w0, sigWitBytes(wits))
		return
	}
	proof0 := sigCopy(proof)
	v, err := sigNewPsVerifier(s.L, s.pub)
	if err != nil {
		o.verdict3("verifier-init", err, err, err)
		return
	}
	e1 := sigPsVerify(v, proof)
	e2 := sigPsVerify(v, proof)
	v3, err := sigNewPsVerifier(s.L, s.pub)
	if err == nil {
		err = sigPsVerify(v3, sigCopy(proof0))
	}
	o.verdict3("verify", e1, e2, err)
	o.Same = bytes.Equal(proof, proof0) && sigEq2(w0, sigWitBytes(wits))
}

func (pg *sigPsGroup) runWit(c *sigCase, o *sigOut) {
	b := pg.base(c)
	if b.stage != "" {
		o.setupFailed(b.stage, b.err)
		return
	}
	wits := append([]ps.SignatureWitness(nil), b.wits...)
	signers := sigU16(c.S)
	if c.Obj == "wit" {
		if c.Kind == "cross" {
			bb := pg.baseB(c)
			if bb.stage != "" {
				o.setupFailed(bb.stage, bb.err)
				return
			}
			wits[c.Who-1] = bb.wits[c.Who-1]
		} else {
			wits[c.Who-1] = sigPertWitness(wits[c.Who-1], c.Kind)
		}
		o.Changed = !sigEq2(sigWitBytes(wits), sigWitBytes(b.wits))
	} else {
		if c.Kind == "swap" {
			signers[c.I-1], signers[c.J-1] = signers[c.J-1], signers[c.I-1]
		} else {
			for q := range signers {
				signers[q] = pg.a.ids[(pg.a.posOf(c.S[q])+1)%pg.a.n] // the next party of the list
			}
		}
		pa, pb := make([]int64, len(signers)), make([]int64, len(signers))
		for q := range signers {
			// evaluation point of a party = its position in the party list of the key generation
			pa[q], pb[q] = int64(pg.a.posOf(int(signers[q]))+1), int64(pg.a.posOf(c.S[q])+1)
		}
		o.Changed = !sigSameCoefficients(pa, pb)
	}
	pg.proveAndVerify(b, signers, wits, o)
}

func (pg *sigPsGroup) runFewer(c *sigCase, o *sigOut) {
	s := pg.a
	b := s.buildBase(c.S, pg.message(c.Mv), "unblind")
	if b.stage != "" {
		o.setupFailed(b.stage, b.err)
		return
	}
	o.Changed = true
	pg.proveAndVerify(b, sigU16(c.S), b.wits, o)
}

func (pg *sigPsGroup) runPok(c *sigCase, o *sigOut) {
	s := pg.a
	b := pg.base(c)
	if b.stage != "" {
		o.setupFailed(b.stage, b.err)
		return
	}
	var other []byte
	switch c.Kind {
	case "cross":
		bb := pg.baseB(c)
		if bb.stage != "" {
			o.setupFailed(bb.stage, bb.err)
			return
		}
		other = bb.proof
	case "fresh":
		var err error
		other, err = sigProve(b.prover, b.secret, sigU16(c.S), b.wits)
		if err != nil {
			o.setupFailed("aggregate", err)
			return
		}
	}
	alt, err := sigPertProof(b.proof, other, c.Field, c.I, c.J, c.Kind)
	if err != nil {
		fatal("sig: perturbing proof: %v", err)
	}
	o.Changed = !bytes.Equal(alt, b.proof)
	alt0 := sigCopy(alt)
	v, err := sigNewPsVerifier(s.L, s.pub)
	if err != nil {
		o.verdict3("verifier-init", err, err, err)
		return
	}
	e1 := sigPsVerify(v, alt)
	e2 := sigPsVerify(v, alt)
	v3, err := sigNewPsVerifier(s.L, s.pub)
	if err == nil {
		err = sigPsVerify(v3, sigCopy(alt0))
	}
	o.verdict3("verify", e1, e2, err)
	o.Same = bytes.Equal(alt, alt0)
}

// the same SigPoK OBJECT verified twice through SigPoK.Verify (exported), then its bytes through ps.Verifier
func (pg *sigPsGroup) runObjVerify(c *sigCase, o *sigOut) {
	s := pg.a
	b := pg.base(c)
	if b.stage != "" {
		o.setupFailed(b.stage, b.err)
		return
	}
	var tp sigRawThresholdPK
	var xy sigRawXYs
	if err := sigUnmarshal(s.pub, &tp); err != nil {
		fatal("sig: public parameter encoding: %v", err)
	}
	if err := sigUnmarshal(tp.TPK, &xy); err != nil {
		fatal("sig: threshold key encoding: %v", err)
	}
	var e1, e2, e3 error
	var b0, b1, b2 []byte
	err, _ := sigTry(func() error {
		pk := ps.PK{}
		var e error
		if pk.X, e = sigCurve.NewG2FromBytes(xy.X); e != nil {
			return e
		}
		for _, y := range xy.Ys {
			p, e := sigCurve.NewG2FromBytes(y)
			if e != nil {
				return e
			}
			pk.Y = append(pk.Y, p)
		}
		pk0 := pk.Bytes()
		pp := ps.Setup(sigCurve, s.L)
		pok := b.prover.ProveKnowledgeOfSignature(b.secret, sigU16(c.S), b.wits)
		b0 = pok.Bytes()
		e1, _ = sigTry(func() error { return pok.Verify(&pp, pk) })
		b1 = pok.Bytes()
		e2, _ = sigTry(func() error { return pok.Verify(&pp, pk) })
		b2 = pok.Bytes()
		if !bytes.Equal(pk0, pk.Bytes()) {
			b2 = nil // the key object was modified
		}
		return nil
	})
	if err != nil {
		o.setupFailed("objverify-setup", err)
		return
	}
	v3, err := sigNewPsVerifier(s.L, s.pub)
	if err == nil {
		err = sigPsVerify(v3, sigCopy(b0))
	}
	e3 = err
	o.verdict3("verify", e1, e2, e3)
	o.Same = bytes.Equal(b0, b1) && bytes.Equal(b0, b2)
}

func (pg *sigPsGroup) runTpk(c *sigCase, o *sigOut) {
	s := pg.a
	b := pg.base(c)
	if b.stage != "" {
		o.setupFailed(b.stage, b.err)
		return
	}
	var tp, otp sigRawThresholdPK
	if err := sigUnmarshal(s.pub, &tp); err != nil {
		fatal("sig: public parameter encoding: %v", err)
	}
	var other []byte
	if c.Kind == "cross" {
		sb := pg.sessB()
		if sb.err != "" {
			o.setupFailed("dkg", fmt.Errorf("%s", sb.err))
			return
		}
		if err := sigUnmarshal(sb.pub, &otp); err != nil {
			fatal("sig: public parameter encoding: %v", err)
		}
		other = otp.TPK
	}
	alt, err := sigPertPK(tp.TPK, other, c.Field, c.I, c.Kind)
	if err != nil {
		fatal("sig: perturbing threshold key: %v", err)
	}
	o.Changed = !bytes.Equal(alt, tp.TPK)
	tp.TPK = alt
	pub := sigMarshal(tp)
	pub0 := sigCopy(pub)
	proof0 := sigCopy(b.proof)
	var e1, e2, e3 error
	v, err := sigNewPsVerifier(s.L, pub)
	if err != nil {
		e1, e2 = err, err
	} else {
		e1 = sigPsVerify(v, b.proof)
		e2 = sigPsVerify(v, b.proof)
	}
	v3, err := sigNewPsVerifier(s.L, sigCopy(pub0))
	if err == nil {
		err = sigPsVerify(v3, sigCopy(proof0))
	}
	e3 = err
	o.verdict3("verify", e1, e2, e3)
	o.Same = bytes.Equal(pub, pub0) && bytes.Equal(b.proof, proof0)
}

// ------------------------------------------------------------------------------------------------------------------------------
// Fiat-Shamir binding: compensated alterations (exported API only), oracle sensitivity and forgeries (verif-tag oracle wrappers)

type sigRawPP struct {
	Data [][]byte
}

// sigParams: the public parameters of mpc/ps for message length L, from the exported PP.Bytes(): g2, g0, g, gs[]
type sigParams struct {
	g2, g0, g []byte
	gs        [][]byte
}

func sigGetParams(L int) sigParams {
	var raw sigRawPP
	var gs sigRawXYs
	pp := ps.Setup(sigCurve, L)
	if err := sigUnmarshal(pp.Bytes(), &raw); err != nil || len(raw.Data) != 5 {
		fatal("sig: public parameter encoding: %v", err)
	}
	if err := sigUnmarshal(raw.Data[3], &gs); err != nil || len(gs.Ys) != L+1 {
		fatal("sig: generator list encoding: %v", err)
	}
	return sigParams{g2: raw.Data[0], g0: raw.Data[1], g: raw.Data[2], gs: gs.Ys}
}

func sigPt1(b []byte) *math.G1 {
	p, err := sigCurve.NewG1FromBytes(b)
	if err != nil {
		fatal("sig: G1 element: %v", err)
	}
	return p
}

func sigPt2(b []byte) *math.G2 {
	p, err := sigCurve.NewG2FromBytes(b)
	if err != nil {
		fatal("sig: G2 element: %v", err)
	}
	return p
}

func sigAddG1(a, b []byte) []byte { p := sigPt1(a); p.Add(sigPt1(b)); return p.Bytes() }
func sigAddG2(a, b []byte) []byte { p := sigPt2(a); p.Add(sigPt2(b)); return p.Bytes() }
func sigZrPlus1(a []byte) []byte {
	return sigCurve.ModAdd(sigCurve.NewZrFromBytes(a), sigCurve.NewZrFromInt(1), sigCurve.GroupOrder).Bytes()
}

func (s *sigPsSession) thresholdKey() sigRawXYs {
	var tp sigRawThresholdPK
	var xy sigRawXYs
	if err := sigUnmarshal(s.pub, &tp); err != nil {
		fatal("sig: public parameter encoding: %v", err)
	}
	if err := sigUnmarshal(tp.TPK, &xy); err != nil {
		fatal("sig: threshold key encoding: %v", err)
	}
	return xy
}

// verifyProof3: Verifier.Verify twice with one verifier and once with a fresh one
func (pg *sigPsGroup) verifyProof3(proof []byte, o *sigOut) {
	s := pg.a
	p0 := sigCopy(proof)
	v, err := sigNewPsVerifier(s.L, s.pub)
	if err != nil {
		o.verdict3("verifier-init", err, err, err)
		return
	}
	e1 := sigPsVerify(v, proof)
	e2 := sigPsVerify(v, proof)
	v3, err := sigNewPsVerifier(s.L, s.pub)
	if err == nil {
		err = sigPsVerify(v3, sigCopy(p0))
	}
	o.verdict3("verify", e1, e2, err)
	o.Same = bytes.Equal(proof, p0)
}

// signRequest3: TPS.Sign twice at one signer instance and once at a fresh one
func (pg *sigPsGroup) signRequest3(req []byte, who int, o *sigOut) {
	s := pg.a
	r0 := sigCopy(req)
	signer := s.signers[who]
	_, e1 := sigSign(signer, req)
	_, e2 := sigSign(signer, req)
	fs, err := s.freshSigner(who)
	if err == nil {
		_, err = sigSign(fs, sigCopy(r0))
	}
	o.verdict3("sign", e1, e2, err)
	o.Same = bytes.Equal(req, r0)
}

// runMall: a genuine proof / request altered in several components that compensate each other in every verification equation; the
// result still verifies exactly if the library's challenge did not change. Exported API and byte encodings only.
func (pg *sigPsGroup) runMall(c *sigCase, o *sigOut) {
	s := pg.a
	b := pg.base(c)
	if b.stage != "" {
		o.setupFailed(b.stage, b.err)
		return
	}
	pp := sigGetParams(s.L)
	if c.Field == "pok" {
		var r sigRawSigPok
		var p sigRawPsi
		if err := sigUnmarshal(b.proof, &r); err != nil || len(r.Data) != 5 {
			fatal("sig: proof encoding: %v", err)
		}
		if err := sigUnmarshal(r.Data[0], &p); err != nil {
			fatal("sig: proof encoding: %v", err)
		}
		switch c.Kind {
		case "gamma-x": // Gamma*Y_i, x_i+1
			key := s.thresholdKey()
			p.Gamma = sigAddG2(p.Gamma, key.Ys[c.I-1])
			p.X[c.I-1] = sigZrPlus1(p.X[c.I-1])
		case "gamma-phi-y": // Gamma*g2, Phi*h^eps, y+1
			p.Gamma = sigAddG2(p.Gamma, pp.g2)
			p.Phi = sigAddG1(p.Phi, r.Data[1])
			p.Y = sigZrPlus1(p.Y)
		default:
			fatal("sig: unknown compensated alteration %q", c.Kind)
		}
		r.Data[0] = sigMarshal(p)
		alt := sigMarshal(r)
		o.Changed = !bytes.Equal(alt, b.proof)
		pg.verifyProof3(alt, o)
		return
	}
	var r sigRawBlindSig
	var p sigRawCorrectProof
	if err := sigUnmarshal(b.req, &r); err != nil {
		fatal("sig: request encoding: %v", err)
	}
	if err := sigUnmarshal(r.CorrectFormProof, &p); err != nil {
		fatal("sig: request encoding: %v", err)
	}
	switch c.Kind {
	case "s-z": // s*g0, z+1
		p.S = sigAddG1(p.S, pp.g0)
		p.Z = sigZrPlus1(p.Z)
	case "d-f-x": // d_i*u, f_i*g, x_i+1
		p.D[c.I-1] = sigAddG1(p.D[c.I-1], r.U)
		p.F[c.I-1] = sigAddG1(p.F[c.I-1], pp.g)
		p.X[c.I-1] = sigZrPlus1(p.X[c.I-1])
	default:
		fatal("sig: unknown compensated alteration %q", c.Kind)
	}
	r.CorrectFormProof = sigMarshal(p)
	alt := sigMarshal(r)
	o.Changed = !bytes.Equal(alt, b.req)
	pg.signRequest3(alt, s.posOf(c.S[c.Who-1]), o)
}

// sigOracleHooks: the verif-tag wrappers around the unexported Fiat-Shamir oracles of mpc/ps (mpc/ps/verif_oracle.go). They are
// looked up at run time so that the driver also builds against a tree that does not have them (those checks are skipped then).
type sigOracleHooks interface {
	VerifChallengePoK(gamma, phi, nu, heps, g2, x, kappa []byte, ys [][]byte) ([]byte, error)
	VerifChallengeBlind(n int, d, f [][]byte, s []byte, a, b [][]byte, cm, g, g0, h, u []byte, gs [][]byte) ([]byte, error)
}

func sigHooks() sigOracleHooks {
	h, _ := interface{}(&ps.Verifier{}).(sigOracleHooks)
	return h
}

// the named arguments of the two oracles
type sigOracleArgs struct {
	pok bool
	sc  map[string][]byte   // scalar arguments by name
	vec map[string][][]byte // vector arguments by name
	n   int
}

func (a *sigOracleArgs) set(name string, i int, b []byte) {
	if i == 0 {
		a.sc[name] = b
	} else {
		a.vec[name][i-1] = b
	}
}

func (a *sigOracleArgs) get(name string, i int) []byte {
	if i == 0 {
		b, ok := a.sc[name]
		if !ok {
			fatal("sig: oracle has no argument %q", name)
		}
		return b
	}
	v, ok := a.vec[name]
	if !ok || i > len(v) {
		fatal("sig: oracle has no argument %q[%d]", name, i)
	}
	return v[i-1]
}

func (a *sigOracleArgs) isG2(name string) bool {
	return a.pok && (name == "Y" || name == "X" || name == "g2" || name == "gamma" || name == "kappa")
}

func (a *sigOracleArgs) clone() *sigOracleArgs {
	c := &sigOracleArgs{pok: a.pok, n: a.n, sc: map[string][]byte{}, vec: map[string][][]byte{}}
	for k, v := range a.sc {
		c.sc[k] = sigCopy(v)
	}
	for k, v := range a.vec {
		c.vec[k] = sigCopy2(v)
	}
	return c
}

func (a *sigOracleArgs) equal(b *sigOracleArgs) bool {
	for k, v := range a.sc {
		if !bytes.Equal(v, b.sc[k]) {
			return false
		}
	}
	for k, v := range a.vec {
		if !sigEq2(v, b.vec[k]) {
			return false
		}
	}
	return true
}

func (a *sigOracleArgs) challenge(h sigOracleHooks) ([]byte, error) {
	var out []byte
	err, _ := sigTry(func() error {
		var e error
		if a.pok {
			out, e = h.VerifChallengePoK(a.sc["gamma"], a.sc["phi"], a.sc["nu"], a.sc["heps"], a.sc["g2"], a.sc["X"], a.sc["kappa"], a.vec["Y"])
		} else {
			out, e = h.VerifChallengeBlind(a.n, a.vec["d"], a.vec["f"], a.sc["s"], a.vec["a"], a.vec["b"], a.sc["cm"], a.sc["g"], a.sc["g0"],
				a.sc["h"], a.sc["u"], a.vec["gs"])
		}
		return e
	})
	return out, err
}

// the full commitment and the base h that SignBlindSignature derives from a request: cm * gs[n-1]^mPrime, HashToG1(that)
func sigRequestBase(cm0, mPrime []byte, pp sigParams) (cm, h []byte) {
	p := sigPt1(cm0)
	p.Add(sigPt1(pp.gs[len(pp.gs)-1]).Mul(sigCurve.NewZrFromBytes(mPrime)))
	return p.Bytes(), sigCurve.HashToG1(p.Bytes()).Bytes()
}

func (pg *sigPsGroup) oracleArgs(c *sigCase, b *sigPsBase) *sigOracleArgs {
	s := pg.a
	pp := sigGetParams(s.L)
	if c.Field == "pok" {
		var r sigRawSigPok
		var p sigRawPsi
		if err := sigUnmarshal(b.proof, &r); err != nil || len(r.Data) != 5 {
			fatal("sig: proof encoding: %v", err)
		}
		if err := sigUnmarshal(r.Data[0], &p); err != nil {
			fatal("sig: proof encoding: %v", err)
		}
		key := s.thresholdKey()
		return &sigOracleArgs{pok: true, n: s.L + 1, sc: map[string][]byte{"gamma": p.Gamma, "phi": p.Phi, "nu": r.Data[3], "heps": r.Data[1],
			"g2": pp.g2, "X": key.X, "kappa": r.Data[4]}, vec: map[string][][]byte{"Y": sigCopy2(key.Ys)}}
	}
	var r sigRawBlindSig
	var p sigRawCorrectProof
	if err := sigUnmarshal(b.req, &r); err != nil {
		fatal("sig: request encoding: %v", err)
	}
	if err := sigUnmarshal(r.CorrectFormProof, &p); err != nil {
		fatal("sig: request encoding: %v", err)
	}
	cm, h := sigRequestBase(r.CM, r.MPrime, pp)
	return &sigOracleArgs{n: s.L + 1, sc: map[string][]byte{"s": p.S, "cm": cm, "g": pp.g, "g0": pp.g0, "h": h, "u": r.U},
		vec: map[string][][]byte{"d": sigCopy2(p.D), "f": sigCopy2(p.F), "a": sigCopy2(r.A), "b": sigCopy2(r.B), "gs": sigCopy2(pp.gs)}}
}

// runOracle: sensitivity of the library's oracle to one argument (kind = name) or to the exchange of two arguments (kind = "a~b").
// v1 = TRUE ("accepted") means: the challenge is the SAME.
func (pg *sigPsGroup) runOracle(c *sigCase, o *sigOut) {
	hk := sigHooks()
	if hk == nil {
		fatal("sig: oracle case without the oracle wrappers (mpc/ps/verif_oracle.go)")
	}
	b := pg.base(c)
	if b.stage != "" {
		o.setupFailed(b.stage, b.err)
		return
	}
	a0 := pg.oracleArgs(c, b)
	a1 := a0.clone()
	if parts := strings.Split(c.Kind, "~"); len(parts) == 2 {
		x, y := a0.get(parts[0], c.I), a0.get(parts[1], c.J)
		a1.set(parts[0], c.I, sigCopy(y))
		a1.set(parts[1], c.J, sigCopy(x))
	} else {
		typ := sigG1
		if a0.isG2(c.Kind) {
			typ = sigG2
		}
		nb, err := sigPertValue(typ, a0.get(c.Kind, c.I), "addgen", nil)
		if err != nil {
			fatal("sig: perturbing oracle argument: %v", err)
		}
		a1.set(c.Kind, c.I, nb)
	}
	o.Changed = !a0.equal(a1)
	keep0, keep1 := a0.clone(), a1.clone()
	same := func(h sigOracleHooks) error {
		c0, err := a0.challenge(h)
		if err != nil {
			return fmt.Errorf("oracle: %v", err)
		}
		c1, err := a1.challenge(h)
		if err != nil {
			return fmt.Errorf("oracle: %v", err)
		}
		if !bytes.Equal(c0, c1) {
			return fmt.Errorf("challenge differs")
		}
		return nil
	}
	e1, e2, e3 := same(hk), same(hk), same(sigHooks())
	o.verdict3("oracle", e1, e2, e3)
	if e1 != nil {
		o.Eq = "differs"
		if strings.HasPrefix(e1.Error(), "oracle:") {
			o.Eq = "other"
		}
	}
	o.Same = a0.equal(keep0) && a1.equal(keep1)
}

func sigRandZr() *math.Zr { return sigCurve.NewRandomZr(crand.Reader) }
func sigMulZr(a, b *math.Zr) *math.Zr { return sigCurve.ModMul(a, b, sigCurve.GroupOrder) }
func sigAddZr(a, b *math.Zr) *math.Zr { return sigCurve.ModAdd(a, b, sigCurve.GroupOrder) }
func sigSubZr(a, b *math.Zr) *math.Zr { return sigCurve.ModSub(a, b, sigCurve.GroupOrder) }

// runForge: a Byzantine prover that computes the challenge with the library's own oracle (wrappers) before it fixes one proof
// commitment (weak Fiat-Shamir attack), and the controls that validate this binding.
func (pg *sigPsGroup) runForge(c *sigCase, o *sigOut) {
	hk := sigHooks()
	if hk == nil {
		fatal("sig: forgery case without the oracle wrappers (mpc/ps/verif_oracle.go)")
	}
	s := pg.a
	pp := sigGetParams(s.L)
	n := s.L + 1
	if c.Field == "pok" {
		key := s.thresholdKey()
		g2 := sigPt2(pp.g2)
		X := sigPt2(key.X)
		if c.Kind == "control" {
			// for a genuine proof the challenge of the wrapper satisfies g2^y prod Y_i^x_i = Gamma (kappa/X)^e
			b := pg.base(c)
			if b.stage != "" {
				o.setupFailed(b.stage, b.err)
				return
			}
			a := pg.oracleArgs(&sigCase{Field: "pok"}, b)
			var r sigRawSigPok
			var p sigRawPsi
			sigUnmarshal(b.proof, &r)
			sigUnmarshal(r.Data[0], &p)
			check := func(h sigOracleHooks) error {
				eb, err := a.challenge(h)
				if err != nil {
					return err
				}
				e := sigCurve.NewZrFromBytes(eb)
				left := g2.Mul(sigCurve.NewZrFromBytes(p.Y))
				for i := range p.X {
					left.Add(sigPt2(key.Ys[i]).Mul(sigCurve.NewZrFromBytes(p.X[i])))
				}
				kx := sigPt2(r.Data[4])
				kx.Sub(X)
				right := sigPt2(p.Gamma)
				right.Add(kx.Mul(e))
				if !left.Equals(right) {
					return fmt.Errorf("κ is not well formed (with the challenge of the wrapper)")
				}
				return nil
			}
			o.verdict3("verify", check(hk), check(hk), check(sigHooks()))
			return
		}
		// kappa = g2^k, h^eps arbitrary, nu = (h^eps)^del, h'^eps = (h^eps)^(k-del), Phi = (h^eps)^mu
		k, del, mu := sigRandZr(), sigRandZr(), sigRandZr()
		heps := sigCurve.GenG1.Mul(sigRandZr())
		kappa := g2.Mul(k)
		nu := heps.Mul(del)
		phi := heps.Mul(mu)
		hpeps := heps.Mul(sigSubZr(k, del))
		eb, err := hk.VerifChallengePoK(pp.g2 /* placeholder for Gamma */, phi.Bytes(), nu.Bytes(), heps.Bytes(), pp.g2, key.X, kappa.Bytes(), key.Ys)
		if err != nil {
			o.setupFailed("oracle", err)
			return
		}
		e := sigCurve.NewZrFromBytes(eb)
		y := sigAddZr(mu, sigMulZr(e, del))
		xs := make([][]byte, n)
		gamma := g2.Mul(y)
		for i := 0; i < n; i++ {
			x := sigRandZr()
			xs[i] = x.Bytes()
			gamma.Add(sigPt2(key.Ys[i]).Mul(x))
		}
		kx := kappa.Copy()
		kx.Sub(X)
		gamma.Sub(kx.Mul(e)) // Gamma := g2^y prod Y^x (kappa/X)^-e
		psi := sigMarshal(sigRawPsi{X: xs, Y: y.Bytes(), Gamma: gamma.Bytes(), Phi: phi.Bytes()})
		proof := sigMarshal(sigRawSigPok{Data: [][]byte{psi, heps.Bytes(), hpeps.Bytes(), nu.Bytes(), kappa.Bytes()}})
		o.Changed = true
		pg.verifyProof3(proof, o)
		return
	}
	// a blinded signing request built from scratch; target: the proof commitment that is solved for after the challenge
	tgt, ti := c.Kind, c.I-1
	msgB := pg.message(c.Mv)
	g, g0 := sigPt1(pp.g), sigPt1(pp.g0)
	gs := make([]*math.G1, n)
	for i := range gs {
		gs[i] = sigPt1(pp.gs[i])
	}
	one := sigCurve.GenG1
	rcm, z := sigRandZr(), sigRandZr()
	u := g.Mul(z)
	cm0 := g0.Mul(rcm)
	msg := make([]*math.Zr, n)
	for i := 0; i < s.L; i++ {
		msg[i] = sigCurve.HashToZr(msgB[i])
		cm0.Add(gs[i].Mul(msg[i]))
	}
	if tgt == "s" {
		cm0.Add(one) // the commitment no longer opens to the encrypted messages
	}
	dg := sha256.Sum256(cm0.Bytes())
	mPrime := sigCurve.HashToZr(dg[:])
	msg[n-1] = mPrime
	cm := cm0.Copy()
	cm.Add(gs[n-1].Mul(mPrime))
	h := sigCurve.HashToG1(cm.Bytes())
	r, al, be := make([]*math.Zr, n), make([]*math.Zr, n), make([]*math.Zr, n)
	a, bb, d, f := make([]*math.G1, n), make([]*math.G1, n), make([]*math.G1, n), make([]*math.G1, n)
	ga := sigRandZr()
	sp := g0.Mul(ga)
	for i := 0; i < n; i++ {
		r[i], al[i], be[i] = sigRandZr(), sigRandZr(), sigRandZr()
		a[i] = g.Mul(r[i])
		bb[i] = h.Mul(msg[i])
		bb[i].Add(u.Mul(r[i]))
		if tgt == "f" && i == ti {
			a[i].Add(one) // arbitrary ciphertext component
		}
		if tgt == "d" && i == ti {
			bb[i].Add(one)
		}
		sp.Add(gs[i].Mul(be[i]))
		d[i] = h.Mul(be[i])
		d[i].Add(u.Mul(al[i]))
		f[i] = g.Mul(al[i])
		if (tgt == "d" || tgt == "f") && i == ti {
			if tgt == "d" {
				d[i] = one.Copy() // placeholder
			} else {
				f[i] = one.Copy()
			}
		}
	}
	if tgt == "s" {
		sp = one.Copy()
	}
	bytesOf := func(ps []*math.G1) [][]byte {
		out := make([][]byte, len(ps))
		for i, p := range ps {
			out[i] = p.Bytes()
		}
		return out
	}
	eb, err := hk.VerifChallengeBlind(n, bytesOf(d), bytesOf(f), sp.Bytes(), bytesOf(a), bytesOf(bb), cm.Bytes(), pp.g, pp.g0, h.Bytes(), u.Bytes(), pp.gs)
	if err != nil {
		o.setupFailed("oracle", err)
		return
	}
	e := sigCurve.NewZrFromBytes(eb)
	zz := sigAddZr(ga, sigMulZr(e, rcm))
	xs, ys := make([]*math.Zr, n), make([]*math.Zr, n)
	for i := 0; i < n; i++ {
		xs[i] = sigAddZr(al[i], sigMulZr(e, r[i]))
		ys[i] = sigAddZr(be[i], sigMulZr(e, msg[i]))
	}
	switch tgt {
	case "s": // s := g0^z prod gs^y cm^-e
		sp = g0.Mul(zz)
		for i := 0; i < n; i++ {
			sp.Add(gs[i].Mul(ys[i]))
		}
		sp.Sub(cm.Mul(e))
	case "d": // d_i := u^x h^y b_i^-e
		d[ti] = u.Mul(xs[ti])
		d[ti].Add(h.Mul(ys[ti]))
		d[ti].Sub(bb[ti].Mul(e))
	case "f": // f_i := g^x a_i^-e
		f[ti] = g.Mul(xs[ti])
		f[ti].Sub(a[ti].Mul(e))
	case "control":
	default:
		fatal("sig: unknown forgery target %q", tgt)
	}
	zrBytes := func(zs []*math.Zr) [][]byte {
		out := make([][]byte, len(zs))
		for i, x := range zs {
			out[i] = x.Bytes()
		}
		return out
	}
	proof := sigMarshal(sigRawCorrectProof{X: zrBytes(xs), Y: zrBytes(ys), S: sp.Bytes(), Z: zz.Bytes(), D: bytesOf(d), F: bytesOf(f)})
	req := sigMarshal(sigRawBlindSig{CorrectFormProof: proof, CM: cm0.Bytes(), MPrime: mPrime.Bytes(), U: u.Bytes(), A: bytesOf(a), B: bytesOf(bb)})
	o.Changed = tgt != "control"
	pg.signRequest3(req, s.posOf(c.S[c.Who-1]), o)
}

// ------------------------------------------------------------------------------------------------------------------------------
// BLS sessions

type sigBlsSession struct {
	n, t    int
	ids     []uint16
	shares  [][]byte
	pub     []byte
	pubeq   bool
	err     string
	signers []*bls.TBLS
	dkg     *sigDKGResult
}

func sigNewBlsSession(n, t int, ids []uint16, o sigDKGOpts) *sigBlsSession {
	s := &sigBlsSession{n: n, t: t, ids: ids}
	s.dkg = sigDKG(func() []sigDKGParty {
		parties := make([]sigDKGParty, n)
		for i := range parties {
			parties[i] = &bls.TBLS{Party: ids[i], Logger: sigNopLogger{}}
		}
		return parties
	}, ids, t, o)
	s.shares, s.err = s.dkg.shares, s.dkg.errText
	pubs := s.dkg.pubs
	if s.err != "" {
		return s
	}
	s.pub = pubs[0]
	s.pubeq = sigAllEqual(pubs)
	s.signers = make([]*bls.TBLS, n)
	for i := range s.signers {
		p := &bls.TBLS{Party: ids[i], Logger: sigNopLogger{}}
		p.Init(ids, t, func([]byte, bool, uint16) {})
		if err := p.SetShareData(sigCopy(s.shares[i])); err != nil {
			s.err = fmt.Sprintf("SetShareData of party %d: %v", ids[i], err)
			return s
		}
		s.signers[i] = p
	}
	return s
}

func (s *sigBlsSession) posOf(id int) int {
	for i, x := range s.ids {
		if int(x) == id {
			return i
		}
	}
	return -1
}

func (s *sigBlsSession) sign(S []int, digest []byte) ([][]byte, error) {
	var sigs [][]byte
	for _, id := range S {
		var sg []byte
		err, _ := sigTry(func() error {
			var e error
			sg, e = s.signers[s.posOf(id)].Sign(context.Background(), digest)
			return e
		})
		if err != nil {
			return nil, err
		}
		sigs = append(sigs, sg)
	}
	return sigs, nil
}

func sigBlsVerifier(pub []byte) (*bls.Verifier, error) {
	v := &bls.Verifier{}
	err, _ := sigTry(func() error { return v.Init(sigCopy(pub)) })
	return v, err
}

func sigBlsAggregate(v *bls.Verifier, sigs [][]byte, signers []uint16) ([]byte, error) {
	var out []byte
	err, _ := sigTry(func() error {
		var e error
		out, e = v.AggregateSignatures(sigs, signers)
		return e
	})
	return out, err
}

func sigBlsVerify(v *bls.Verifier, digest, sig []byte) error {
	err, _ := sigTry(func() error { return v.Verify(digest, sig) })
	return err
}

type sigBlsGroup struct {
	g       *sigGroup
	digests [][]byte
	a, b    *sigBlsSession
	opts    sigDKGOpts
}

func (bg *sigBlsGroup) sessB() *sigBlsSession {
	if bg.b == nil {
		o := bg.opts
		o.seed, o.sched = o.seed+104729, nil
		bg.b = sigNewBlsSession(bg.g.N, bg.g.T, sigU16(bg.g.Ids), o)
	}
	return bg.b
}

func (bg *sigBlsGroup) run(ci sigCaseIn) sigOut {
	c := ci.C
	o := sigOut{ID: ci.ID, C: c, Gid: bg.g.Gid, Same: true, Pubeq: true}
	s := bg.a
	if s.err != "" {
		o.setupFailed("dkg", fmt.Errorf("%s", s.err)) // (no public material to compare: reported by the record of the key generation)
		return o
	}
	o.Pubeq = s.pubeq
	digest := sigCopy(bg.digests[0])
	sigs, err := s.sign(c.S, digest)
	if err != nil {
		o.setupFailed("sign", err)
		return o
	}
	signers := sigU16(c.S)
	pub := sigCopy(s.pub)
	needB := c.Kind == "cross"
	var sb *sigBlsSession
	var sigsB [][]byte
	if needB {
		sb = bg.sessB()
		if sb.err != "" {
			o.setupFailed("dkg", fmt.Errorf("%s", sb.err))
			return o
		}
		if sigsB, err = sb.sign(c.S, digest); err != nil {
			o.setupFailed("sign", err)
			return o
		}
	}
	var pp, ppB sigRawBlsPP
	if err := sigUnmarshal(pub, &pp); err != nil {
		fatal("sig: bls public parameter encoding: %v", err)
	}
	if !bytes.Equal(sigMarshal(pp), pub) {
		fatal("sig: bls public parameters do not round-trip through the mirror structure")
	}
	if needB {
		if err := sigUnmarshal(sb.pub, &ppB); err != nil {
			fatal("sig: bls public parameter encoding: %v", err)
		}
	}
	verifyDigest := digest
	switch c.Obj {
	case "none", "fewer", "sig":
	case "msg":
		verifyDigest = sigCopy(bg.digests[1])
		o.Changed = !bytes.Equal(verifyDigest, digest)
	case "share":
		var other []byte
		if needB {
			other = sigsB[c.Who-1]
		}
		alt, err := sigPertValue(sigG1, sigs[c.Who-1], c.Kind, other)
		if err != nil {
			fatal("sig: perturbing share: %v", err)
		}
		o.Changed = !bytes.Equal(alt, sigs[c.Who-1])
		sigs[c.Who-1] = alt
	case "assign":
		if c.Kind == "swap" {
			signers[c.I-1], signers[c.J-1] = signers[c.J-1], signers[c.I-1]
		} else {
			for q := range signers {
				signers[q] = s.ids[(s.posOf(c.S[q])+1)%s.n]
			}
		}
		pa, pb := make([]int64, len(signers)), make([]int64, len(signers))
		for q := range signers {
			pa[q], pb[q] = int64(s.posOf(int(signers[q]))+1), int64(s.posOf(c.S[q])+1) // bls.Verifier: position in the parties list
		}
		o.Changed = !sigSameCoefficients(pa, pb)
	case "tpk":
		alt, err := sigPertValue(sigG2, pp.ThresholdPK, c.Kind, ppB.ThresholdPK)
		if err != nil {
			fatal("sig: perturbing threshold key: %v", err)
		}
		o.Changed = !bytes.Equal(alt, pp.ThresholdPK)
		pp.ThresholdPK = alt
		pub = sigMarshal(pp)
	case "pk":
		alt, err := sigPertValue(sigG2, pp.PublicKeys[c.I-1], c.Kind, nil)
		if err != nil {
			fatal("sig: perturbing party key: %v", err)
		}
		o.Changed = !bytes.Equal(alt, pp.PublicKeys[c.I-1])
		pp.PublicKeys[c.I-1] = alt
		pub = sigMarshal(pp)
	default:
		fatal("sig: unknown bls object %q", c.Obj)
	}
	if c.Obj == "fewer" {
		o.Changed = true
	}
	pub0, sigs0 := sigCopy(pub), sigCopy2(sigs)
	v, err := sigBlsVerifier(pub)
	if err != nil {
		o.verdict3("verifier-init", err, err, err)
		return o
	}
	var agg []byte
	if c.Obj == "fewer" && c.Kind == "raw" {
		agg = sigCopy(sigs[0])
	} else {
		agg, err = sigBlsAggregate(v, sigs, signers)
		if err != nil {
			o.verdict3("aggregate", err, err, err)
			_, err2 := sigBlsAggregate(v, sigs, signers)
			o.V2 = err2 == nil
			o.Same = sigEq2(sigs, sigs0)
			return o
		}
	}
	if c.Obj == "sig" {
		var other []byte
		if needB {
			vb, err := sigBlsVerifier(sb.pub)
			if err == nil {
				other, err = sigBlsAggregate(vb, sigsB, sigU16(c.S))
			}
			if err != nil {
				o.setupFailed("aggregate", err)
				return o
			}
		}
		alt, err := sigPertValue(sigG1, agg, c.Kind, other)
		if err != nil {
			fatal("sig: perturbing signature: %v", err)
		}
		o.Changed = !bytes.Equal(alt, agg)
		agg = alt
	}
	agg0, dg0 := sigCopy(agg), sigCopy(verifyDigest)
	e1 := sigBlsVerify(v, verifyDigest, agg)
	e2 := sigBlsVerify(v, verifyDigest, agg)
	v3, err := sigBlsVerifier(pub0)
	if err == nil {
		err = sigBlsVerify(v3, sigCopy(dg0), sigCopy(agg0))
	}
	o.verdict3("verify", e1, e2, err)
	o.Same = bytes.Equal(agg, agg0) && bytes.Equal(verifyDigest, dg0) && bytes.Equal(pub, pub0) && sigEq2(sigs, sigs0)
	return o
}

// ------------------------------------------------------------------------------------------------------------------------------

func sigHexAll(xs []string) [][]byte {
	r := make([][]byte, len(xs))
	for i, x := range xs {
		b, err := hex.DecodeString(x)
		if err != nil {
			fatal("sig: bad hex in job: %v", err)
		}
		r[i] = b
	}
	return r
}

func sigNorm(c *sigCase) {
	if c.Ids == nil {
		c.Ids = []int{}
	}
	if c.S == nil {
		c.S = []int{}
	}
	if c.Mv == nil {
		c.Mv = []int{}
	}
}

func sigMain() {
	var job sigJob
	readJob(&job)
	if job.Probe {
		em := newEmitter()
		em.lines([]obj{{"e": "probe", "hooks": sigHooks() != nil}})
		em.flush()
		return
	}
	if job.Workers < 1 {
		job.Workers = 4
	}
	if job.TimeoutS < 1 {
		job.TimeoutS = 60
	}
	tmo := time.Duration(job.TimeoutS) * time.Second
	if job.GraceS < 1 {
		job.GraceS = 10
	}
	grace := time.Duration(job.GraceS) * time.Second
	em := newEmitter()
	var mu sync.Mutex
	total, dkgs := 0, 0
	t0 := time.Now()
	parallel(len(job.Groups), job.Workers, func(gi int) {
		g := &job.Groups[gi]
		var outs []obj
		emit := func(o sigOut, start time.Time) {
			sigNorm(&o.C)
			o.Ms = float64(time.Since(start).Microseconds()) / 1000
			outs = append(outs, obj{"id": o.ID, "c": o.C, "changed": o.Changed, "v1": o.V1, "v2": o.V2, "v3": o.V3, "same": o.Same,
				"pubeq": o.Pubeq, "stage": o.Stage, "eq": o.Eq, "err": o.Err, "gid": o.Gid, "ms": o.Ms})
		}
		nd := 1
		opts := sigDKGOpts{seed: g.Sched, policy: -1, bag: g.Bag, sched: g.DkgSched, timeout: tmo, grace: grace}
		if g.DkgPolicy != nil {
			opts.policy = *g.DkgPolicy
		}
		// the record of the key generation itself: the deliveries in the order executed and who finished
		dkgRecord := func(back string, r *sigDKGResult, pubeq bool) {
			if g.DkgID == nil {
				return
			}
			order := r.order
			if order == nil {
				order = [][3]int{}
			}
			eq := "ok"
			if r.stuck {
				eq = "stuck"
			} else if r.errText != "" {
				eq = "error"
			}
			ok := r.errText == "" && r.allDone()
			outs = append(outs, obj{"id": *g.DkgID, "c": obj{"sch": "dkg", "back": back, "n": g.N, "t": g.T, "L": g.L, "sched": order, "policy": r.policy,
				"explicit": len(g.DkgSched) > 0, "obj": "dkg", "field": back, "kind": "", "i": 0, "j": 0, "who": 0, "S": []int{}, "mv": []int{},
				"ids": g.Ids}, "changed": false, "v1": ok, "v2": ok, "v3": ok, "same": true, "pubeq": ok && pubeq,
				"stage": "dkg", "eq": eq, "err": sigErrText(fmt.Errorf("%s", r.errText)), "gid": g.Gid, "ms": 0, "done": r.done})
		}
		switch g.Sch {
		case "ps":
			pg := &sigPsGroup{g: g, alpha: sigHexAll(g.Alpha), bases: map[string]*sigPsBase{}, basesB: map[string]*sigPsBase{}, opts: opts}
			if len(pg.alpha) < 3 {
				fatal("sig: group %d: alphabet needs 3 entries", g.Gid)
			}
			pg.a = sigNewPsSession(g.N, g.T, g.L, sigU16(g.Ids), opts)
			dkgRecord("ps", pg.a.dkg, pg.a.pubeq)
			for _, ci := range g.Cases {
				st := time.Now()
				emit(pg.run(ci), st)
			}
			if pg.b != nil {
				nd++
			}
		case "bls":
			bg := &sigBlsGroup{g: g, digests: sigHexAll(g.Digests), opts: opts}
			if len(bg.digests) < 2 {
				fatal("sig: group %d: two digests needed", g.Gid)
			}
			bg.a = sigNewBlsSession(g.N, g.T, sigU16(g.Ids), opts)
			dkgRecord("bls", bg.a.dkg, bg.a.pubeq)
			for _, ci := range g.Cases {
				st := time.Now()
				emit(bg.run(ci), st)
			}
			if bg.b != nil {
				nd++
			}
		default:
			fatal("sig: unknown scheme %q", g.Sch)
		}
		em.lines(outs)
		mu.Lock()
		total += len(outs)
		dkgs += nd
		mu.Unlock()
	})
	em.lines([]obj{{"e": "summary", "cases": total, "dkgs": dkgs, "wall_ms": time.Since(t0).Milliseconds(),
		"dkg_stuck_not_reproduced": atomic.LoadInt64(&sigStuckNotReproduced)}})
	em.flush()
}
