package main

import (
	"context"
	"crypto/sha256"
	"encoding/hex"
	"fmt"
	"sort"
	"strings"
	"sync"
	"time"

	"github.com/IBM/TSS/threshold"
	tss "github.com/IBM/TSS/types"

	"verif/harness/internal/scripted"
)

// ---- job -------------------------------------------------------------------------------------------------------

type rbcJob struct {
	Cfgs    []rbcJobCfg      `json:"cfgs"`
	Paths   [][]obj          `json:"paths"`
	PathCfg []int            `json:"pathcfg"`
	Tags    []string         `json:"tags"`
	PathIDs []map[string]int `json:"pathids"` // optional per-path identifier map overriding the configuration's
	Workers int              `json:"workers"`
}

type rbcJobCfg struct {
	Mode      string         `json:"mode"`
	N         int            `json:"n"`
	Byz       []int          `json:"byz"`
	Outsiders []int          `json:"outsiders"`
	IDs       map[string]int `json:"ids"`
	Rounds    []int          `json:"rounds"`
	Contents  []string       `json:"contents"`
	Echo      obj            `json:"echo"`
}

// ---- a live session of honest Schemes with scripted back ends ---------------------------------------------------

type wireMsg struct {
	from, to uint16
	msgType  uint8
	topic    []byte
	data     []byte
	abs      obj
	key      string
}

type rbcSession struct {
	cfg      rbcJobCfg
	real     map[int]uint16 // abstract -> real id
	abs      map[uint16]int // real -> abstract
	honest   []int
	schemes  map[int]*threshold.Scheme
	backends map[int]*scripted.Backend
	digests  map[string]obj // sha256(payload bytes) -> abstract payload
	topic    []byte

	mu       sync.Mutex
	inflight []*wireMsg // messages to honest parties, creation order
	stepOut  []obj      // abstract messages sent during the current step
	stepFwd  []obj      // hand-overs during the current step
	cancel   context.CancelFunc
	results  chan error
}

func absPayload(b []byte) obj {
	cls, r, x, ok := scripted.DecodePayload(b)
	if !ok {
		return obj{"cls": "?", "r": 0, "x": hex.EncodeToString(b)}
	}
	return obj{"cls": string([]byte{cls}), "r": int(r), "x": string(x)}
}

func concPayload(pl obj) []byte {
	cls := pl["cls"].(string)
	r := int(pl["r"].(float64))
	x := pl["x"].(string)
	return scripted.EncodePayload(cls[0], uint8(r), []byte(x))
}

func sha(b []byte) []byte { h := sha256.Sum256(b); return h[:] }

func (s *rbcSession) absID(id uint16) int {
	if a, ok := s.abs[id]; ok {
		return a
	}
	return -int(id) - 1
}

// decode a real MPC message into the abstract vocabulary of RBC.tla, with a decoder written independently of the code
// under test (acknowledgement = round, sender big-endian, digest; payload = 255 || bytes).
func (s *rbcSession) abstract(from, to uint16, data []byte) obj {
	if len(data) > 0 && data[0] == 255 {
		return obj{"k": "msg", "from": s.absID(from), "to": s.absID(to), "pl": absPayload(data[1:])}
	}
	if len(data) >= 4 && data[0]>>7 == 0 {
		sender := uint16(data[1])<<8 | uint16(data[2])
		d, ok := s.digests[string(data[3:])]
		if !ok {
			d = obj{"cls": "?", "r": 0, "x": hex.EncodeToString(data[3:])}
		}
		return obj{"k": "ack", "from": s.absID(from), "to": s.absID(to), "s": s.absID(sender), "r": int(data[0]), "d": d}
	}
	return obj{"k": "unknown", "from": s.absID(from), "to": s.absID(to), "x": hex.EncodeToString(data)}
}

func (s *rbcSession) concrete(m obj) (from, to uint16, data []byte) {
	from = s.real[int(m["from"].(float64))]
	to = s.real[int(m["to"].(float64))]
	switch m["k"].(string) {
	case "msg":
		data = append([]byte{255}, concPayload(m["pl"].(obj))...)
	case "ack":
		sender := s.real[int(m["s"].(float64))]
		r := int(m["r"].(float64))
		data = []byte{byte(r), byte(sender >> 8), byte(sender)}
		data = append(data, sha(concPayload(m["d"].(obj)))...)
	}
	return
}

func newRBCSession(cfg rbcJobCfg) (*rbcSession, error) { return newRBCSessionWith(cfg, nil) }

// logger: optional, the Logger of the Scheme of an abstract party (default: silent)
func newRBCSessionWith(cfg rbcJobCfg, logger func(a int) tss.Logger) (*rbcSession, error) {
	s := &rbcSession{cfg: cfg, real: map[int]uint16{}, abs: map[uint16]int{}, schemes: map[int]*threshold.Scheme{},
		backends: map[int]*scripted.Backend{}, digests: map[string]obj{}, results: make(chan error, 16)}
	all := []int{}
	for i := 1; i <= cfg.N; i++ {
		all = append(all, i)
	}
	all = append(all, cfg.Outsiders...)
	for _, a := range all {
		r := a
		if v, ok := cfg.IDs[fmt.Sprint(a)]; ok {
			r = v
		}
		s.real[a] = uint16(r)
		s.abs[uint16(r)] = a
	}
	isByz := map[int]bool{}
	for _, b := range cfg.Byz {
		isByz[b] = true
	}
	for i := 1; i <= cfg.N; i++ {
		if !isByz[i] {
			s.honest = append(s.honest, i)
		}
	}
	for _, cls := range []byte{'B', 'P'} {
		for _, r := range cfg.Rounds {
			for _, x := range cfg.Contents {
				b := scripted.EncodePayload(cls, uint8(r), []byte(x))
				s.digests[string(sha(b))] = absPayload(b)
			}
		}
	}
	membership := map[tss.UniversalID]tss.PartyID{}
	for _, a := range all {
		membership[tss.UniversalID(s.real[a])] = tss.PartyID(s.real[a])
	}
	var participants []uint16
	for i := 1; i <= cfg.N; i++ {
		participants = append(participants, s.real[i])
	}
	sort.Slice(participants, func(i, j int) bool { return participants[i] < participants[j] })

	ctx, cancel := context.WithCancel(context.Background())
	s.cancel = cancel
	for _, a := range s.honest {
		a := a
		id := s.real[a]
		be := scripted.NewBackend(id)
		be.OnHandOver = func(rec scripted.OnMsgRec) {
			s.mu.Lock()
			s.stepFwd = append(s.stepFwd, obj{"at": a, "s": s.absID(rec.From), "pl": absPayload(rec.Payload), "bc": rec.Broadcast})
			s.mu.Unlock()
		}
		s.backends[a] = be
		send := func(msgType uint8, topic []byte, msg []byte, to ...uint16) {
			s.mu.Lock()
			defer s.mu.Unlock()
			if msgType != uint8(tss.MsgTypeMPC) {
				return
			}
			for _, dst := range to {
				am := s.abstract(id, dst, msg)
				s.stepOut = append(s.stepOut, am)
				if da, ok := s.abs[dst]; ok && !isByz[da] && da >= 1 && da <= cfg.N {
					s.inflight = append(s.inflight, &wireMsg{from: id, to: dst, msgType: msgType, topic: append([]byte(nil), topic...),
						data: append([]byte(nil), msg...), abs: am, key: canon(am)})
				}
			}
		}
		var lg tss.Logger = scripted.Logger{}
		if logger != nil {
			lg = logger(a)
		}
		party := threshold.LoudScheme(id, lg, func(uint16) tss.KeyGenerator { return be }, func(uint16) tss.Signer { return be },
			cfg.N-1, send, func() map[tss.UniversalID]tss.PartyID { return membership })
		sch := party.(*threshold.Scheme)
		sch.SyncFactory = func(members []uint16, _ func([]byte), _ func([]byte, uint16)) tss.Synchronizer {
			return &scripted.StubSync{Plan: func(context.Context, []byte, int) ([]uint16, error) { return participants, nil }}
		}
		s.schemes[a] = sch
		switch cfg.Mode {
		case "sign":
			sch.SetStoredData([]byte("share"))
			go func() {
				_, err := sch.Sign(ctx, []byte("digest-of-32-bytes-0123456789abcd"), "rbc-topic")
				s.results <- err
			}()
		default:
			go func() {
				_, err := sch.KeyGen(ctx, cfg.N, cfg.N-1)
				s.results <- err
			}()
		}
	}
	if cfg.Mode == "sign" {
		s.topic = sha([]byte("rbc-topic"))
	} else {
		s.topic = sha([]byte(tss.DkgTopicName))
	}
	for _, a := range s.honest {
		if !s.backends[a].WaitStarted(5 * time.Second) {
			cancel()
			return nil, fmt.Errorf("back end of party %d never started", a)
		}
	}
	return s, nil
}

func (s *rbcSession) close() {
	for _, a := range s.honest {
		s.backends[a].Release <- scripted.Result{Data: []byte("done")}
	}
	for range s.honest {
		select {
		case <-s.results:
		case <-time.After(5 * time.Second):
		}
	}
	s.cancel()
}

// handle delivers real bytes to the Scheme of abstract party `to` and returns what happened during the call.
func (s *rbcSession) handle(to int, from uint16, data []byte) (out, fwd []obj, panicked string) {
	s.mu.Lock()
	s.stepOut, s.stepFwd = nil, nil
	s.mu.Unlock()
	func() {
		defer func() {
			if r := recover(); r != nil {
				panicked = fmt.Sprint(r)
			}
		}()
		s.schemes[to].HandleMessage(&tss.IncMessage{Data: data, Source: from, MsgType: uint8(tss.MsgTypeMPC), Topic: s.topic})
	}()
	s.mu.Lock()
	out, fwd = s.stepOut, s.stepFwd
	s.stepOut, s.stepFwd = nil, nil
	s.mu.Unlock()
	if out == nil {
		out = []obj{}
	}
	if fwd == nil {
		fwd = []obj{}
	}
	return
}

func (s *rbcSession) take(key string) *wireMsg {
	s.mu.Lock()
	defer s.mu.Unlock()
	for i, m := range s.inflight {
		if m.key == key {
			s.inflight = append(s.inflight[:i], s.inflight[i+1:]...)
			return m
		}
	}
	return nil
}

func (s *rbcSession) takeFirst() *wireMsg {
	s.mu.Lock()
	defer s.mu.Unlock()
	if len(s.inflight) == 0 {
		return nil
	}
	m := s.inflight[0]
	s.inflight = s.inflight[1:]
	return m
}

// replay one behaviour; returns the trace of what the real code did.
func rbcReplay(t int, cfg rbcJobCfg, path []obj, tag string) []obj {
	lines := []obj{{"t": t, "e": "reset", "cfg": cfg.Echo, "mode": cfg.Mode, "tag": tag}}
	s, err := newRBCSession(cfg)
	if err != nil {
		return append(lines, obj{"t": t, "e": "end", "error": err.Error(), "quiescent": false, "drift": "setup"})
	}
	defer s.close()
	isHonest := map[int]bool{}
	for _, a := range s.honest {
		isHonest[a] = true
	}
	drift := ""
	step := func(ev string, m obj, to int, from uint16, data []byte) {
		out, fwd, p := s.handle(to, from, data)
		lines = append(lines, obj{"t": t, "e": ev, "m": m, "out": out, "fwd": fwd, "panic": p, "nil": strings.Contains(p, "is nil")})
	}
	// drain: deliver whatever the real code still has in flight, oldest first
	drain := func() {
		for n := 0; n < 5000; n++ {
			w := s.takeFirst()
			if w == nil {
				break
			}
			step("deliver", w.abs, s.absID(w.to), w.from, w.data)
		}
	}
	for _, ev := range path {
		if drift != "" {
			break
		}
		switch ev["e"].(string) {
		case "bsend", "psend":
			p := int(ev["p"].(float64))
			r := int(ev["r"].(float64))
			x := ev["x"].(string)
			s.mu.Lock()
			s.stepOut, s.stepFwd = nil, nil
			s.mu.Unlock()
			var err error
			if ev["e"] == "bsend" {
				err = s.backends[p].Emit(scripted.EncodePayload('B', uint8(r), []byte(x)), true, 0)
			} else {
				err = s.backends[p].Emit(scripted.EncodePayload('P', uint8(r), []byte(x)), false, s.real[int(ev["to"].(float64))])
			}
			if err != nil {
				drift = err.Error()
				break
			}
			s.mu.Lock()
			out := s.stepOut
			s.stepOut = nil
			s.mu.Unlock()
			if out == nil {
				out = []obj{}
			}
			l := obj{"t": t, "e": ev["e"], "p": p, "r": r, "x": x, "out": out}
			if ev["e"] == "psend" {
				l["to"] = ev["to"]
			}
			lines = append(lines, l)
		case "deliver":
			m := ev["m"].(obj)
			w := s.take(canon(m))
			if w == nil {
				drift = "the code never produced " + canon(m)
				break
			}
			step("deliver", m, int(m["to"].(float64)), w.from, w.data)
		case "inject":
			m := ev["m"].(obj)
			from, _, data := s.concrete(m)
			step("inject", m, int(m["to"].(float64)), from, data)
		case "drain":
			drain()
		}
	}
	drain()
	s.mu.Lock()
	left := len(s.inflight)
	s.mu.Unlock()
	lines = append(lines, obj{"t": t, "e": "end", "quiescent": left == 0, "drift": drift})
	return lines
}

func init() {
	commands["rbc"] = func() {
		var job rbcJob
		readJob(&job)
		em := newEmitter()
		defer em.flush()
		parallel(len(job.Paths), job.Workers, func(i int) {
			cfg := job.Cfgs[job.PathCfg[i]]
			if i < len(job.PathIDs) && job.PathIDs[i] != nil {
				cfg.IDs = job.PathIDs[i]
			}
			tag := ""
			if i < len(job.Tags) {
				tag = job.Tags[i]
			}
			em.lines(rbcReplay(i, cfg, job.Paths[i], tag))
		})
	}
}
