package main

import (
	"context"
	"encoding/hex"
	"fmt"
	"sort"
	"sync"
	"sync/atomic"
	"time"

	"github.com/IBM/TSS/threshold"
	tss "github.com/IBM/TSS/types"

	"verif/harness/internal/scripted"
)

// orch: scenarios (call histories with harness-chosen stage outcomes, cancellations, late completions, injected traffic) on
// ONE real threshold.Scheme; peers are played by a stub synchroniser and a scripted back end (spec/Orch.tla; C06, C11, C12).

type orchPlan struct {
	S1   string `json:"s1"`   // "ok" | "err"
	Prep string `json:"prep"` // "ok" | "dup" | "share"
	S2   string `json:"s2"`
	Be   string `json:"be"`
	Late string `json:"late"` // "none" | "s1" | "s2" | "be": that stage ignores the context and completes only when released
}

type orchOp struct {
	E      string   `json:"e"` // call | step | cancel | late | inject | emit
	C      int      `json:"c"`
	Kind   string   `json:"kind"`  // call: "kg" | "sg"; inject: "mpc" | "sync"
	Topic  string   `json:"topic"` // logical topic name
	Plan   orchPlan `json:"plan"`
	Expect string   `json:"expect"` // signal the model expects next from call c: s1 | s2 | be | ret | none
	From   int      `json:"from"`
	To     int      `json:"to"` // emit: addressed party (0 = broadcast)
	Label  string   `json:"label"`
	Probe  string   `json:"probe"` // "" | "end": the last step of a probe call appended after the scenario proper
	Map    map[string]int `json:"map"` // setmap: what Membership() answers from now on (node -> party)
}

type orchScenario struct {
	Self            int            `json:"self"`
	Membership      map[string]int `json:"membership"` // node -> party
	Participants    []int          `json:"participants"`
	DupParticipants []int          `json:"dupparticipants"`
	Threshold       int            `json:"threshold"`
	Ops             []orchOp       `json:"ops"`
}

type orchJob struct {
	Scenarios []orchScenario `json:"scenarios"`
	Workers   int            `json:"workers"`
	Base      int            `json:"base"`
}

type orchSignal struct {
	c    int
	what string
	res  string
}

type orchCall struct {
	gate chan struct{}
	id      int
	kind    string
	topic   string
	plan    orchPlan
	cancel  context.CancelFunc
	decide  map[string]chan string // stage -> outcome
	backend *scripted.Backend
	done    bool
	regSeen bool
}

type orchRun struct {
	holdNext chan struct{} // a call launched "held": the next SyncFactory invocation blocks on this until the call is released
	membership map[tss.UniversalID]tss.PartyID // set by a setmap operation
	sc      orchScenario
	sch     *threshold.Scheme
	mu      sync.Mutex
	calls   map[int]*orchCall
	byTopic map[string][][2]interface{} // logical topic -> (call id, stage) of every call made on it, oldest first
	names   map[string]string           // hex topic -> logical name
	signals chan orchSignal
	current *orchCall
	onmsg   []obj
	synch   []obj
	sends   []obj
	stubs   map[*scripted.StubSync]string
}

func (r *orchRun) name(topic []byte) string {
	if n, ok := r.names[hex.EncodeToString(topic)]; ok {
		return n
	}
	return "?" + hex.EncodeToString(topic)[:8]
}

func syncTopic2(members []int) []byte {
	h := []byte{}
	for _, m := range members {
		h = append(h, byte(m), byte(m>>8))
	}
	return sha(h)
}

func newOrchRun(sc orchScenario) *orchRun {
	r := &orchRun{sc: sc, calls: map[int]*orchCall{}, byTopic: map[string][][2]interface{}{}, names: map[string]string{}, signals: make(chan orchSignal, 64),
		stubs: map[*scripted.StubSync]string{}}
	membership := map[tss.UniversalID]tss.PartyID{}
	for k, v := range sc.Membership {
		var n int
		fmt.Sscan(k, &n)
		membership[tss.UniversalID(n)] = tss.PartyID(v)
	}
	r.names[hex.EncodeToString(sha([]byte(tss.DkgTopicName)))] = "DKG"
	r.names[hex.EncodeToString(syncTopic2(sc.Participants))] = "DKG2"
	if len(sc.DupParticipants) > 0 {
		if k := hex.EncodeToString(syncTopic2(sc.DupParticipants)); r.names[k] == "" {
			r.names[k] = "DKG2d"
		}
	}
	for _, t := range []string{"T1", "T2", "P1", "P2"} {
		r.names[hex.EncodeToString(sha([]byte(t)))] = t
		r.names[hex.EncodeToString(sha(sha([]byte(t))))] = t + "2"
	}
	send := func(msgType uint8, topic []byte, m []byte, to ...uint16) {
		dst := make([]int, len(to))
		for i, d := range to {
			dst[i] = int(d)
		}
		kind := "sync"
		if msgType == uint8(tss.MsgTypeMPC) {
			kind = "ack"
			if len(m) > 0 && m[0] == 255 {
				kind = "mpc"
			}
		}
		r.mu.Lock()
		r.sends = append(r.sends, obj{"kind": kind, "topic": r.name(topic), "to": dst})
		r.mu.Unlock()
	}
	party := threshold.LoudScheme(uint16(sc.Self), scripted.Logger{},
		func(uint16) tss.KeyGenerator { return r.newBackend() },
		func(uint16) tss.Signer { return r.newBackend() },
		sc.Threshold, send, func() map[tss.UniversalID]tss.PartyID {
			r.mu.Lock()
			defer r.mu.Unlock()
			if r.membership != nil {
				return r.membership
			}
			return membership
		})
	r.sch = party.(*threshold.Scheme)
	// the injected broadcast factory runs right before the continuation registers its handlers: a plan may pause there
	origRBF := r.sch.RBF
	r.sch.RBF = func(b tss.BroadcastFunc, f tss.ForwardFunc, n int) tss.ReliableBroadcast {
		r.mu.Lock()
		c := r.current
		pause := c != nil && c.plan.Late == "reg" && !c.regSeen
		if pause {
			c.regSeen = true
		}
		r.mu.Unlock()
		if pause {
			r.signals <- orchSignal{c: c.id, what: "reg"}
			<-c.decide["reg"]
		}
		return origRBF(b, f, n)
	}
	r.sch.SyncFactory = func(members []uint16, _ func([]byte), _ func([]byte, uint16)) tss.Synchronizer {
		r.mu.Lock()
		hold := r.holdNext
		r.holdNext = nil
		r.mu.Unlock()
		if hold != nil {
			select {
			case <-hold:
			case <-time.After(2 * time.Second):
			}
		}
		st := &scripted.StubSync{}
		st.Plan = func(ctx context.Context, topic []byte, expected int) ([]uint16, error) {
			name := r.name(topic)
			r.mu.Lock()
			r.stubs[st] = name
			// the call that owns the topic: the first one that has not returned (a refused call returns at once)
			var ent [2]interface{}
			ok := false
			for _, e := range r.byTopic[name] {
				if !r.calls[e[0].(int)].done {
					ent, ok = e, true
					break
				}
			}
			r.mu.Unlock()
			if !ok {
				return nil, fmt.Errorf("harness: no call owns topic %s", name)
			}
			c := r.calls[ent[0].(int)]
			stage := ent[1].(string)
			r.signals <- orchSignal{c: c.id, what: stage}
			var outcome string
			if c.plan.Late == stage {
				outcome = <-c.decide[stage]
			} else {
				select {
				case outcome = <-c.decide[stage]:
				case <-ctx.Done():
					return nil, ctx.Err()
				}
			}
			if outcome != "ok" {
				return nil, fmt.Errorf("harness: synchronisation failed")
			}
			parts := sc.Participants
			if c.plan.Prep == "dup" {
				parts = sc.DupParticipants
			}
			res := make([]uint16, len(parts))
			for i, p := range parts {
				res[i] = uint16(p)
			}
			return res, nil
		}
		st.OnMsg = func(from uint16, m []byte) {
			r.mu.Lock()
			r.synch = append(r.synch, obj{"topic": r.stubs[st], "from": int(from)})
			r.mu.Unlock()
		}
		return st
	}
	return r
}

func (r *orchRun) newBackend() *scripted.Backend {
	c := r.current
	be := scripted.NewBackend(uint16(r.sc.Self))
	if c == nil {
		return be
	}
	be.IgnoreCtx = c.plan.Late == "be"
	if c.plan.Prep == "share" {
		be.ShareErr = fmt.Errorf("harness: unusable share data")
	}
	cid := c.id
	be.OnHandOver = func(rec scripted.OnMsgRec) {
		r.mu.Lock()
		r.onmsg = append(r.onmsg, obj{"c": cid, "from": int(rec.From), "bc": rec.Broadcast})
		r.mu.Unlock()
	}
	c.backend = be
	go func() {
		<-be.Started
		r.signals <- orchSignal{c: cid, what: "be"}
	}()
	return be
}

func (r *orchRun) tables() obj {
	s, rb, cl, dkg := r.sch.VerifTables()
	conv := func(in []string) []string {
		out := []string{}
		for _, k := range in {
			out = append(out, r.name([]byte(k)))
		}
		sort.Strings(out)
		return out
	}
	return obj{"syncs": conv(s), "rbcs": conv(rb), "cls": conv(cl), "dkg": dkg}
}

// wait for the next signal of call c (or for nothing, when the model expects the call to stay where it is)
// circuit breaker: a tree on which expected signals do not arrive (every such wait costs 3 s) must not turn the check into hours;
// once a process has waited in vain 12 times the remaining waits are short (the verdict is already decided by then)
var orchVainWaits int32

func (r *orchRun) await(c int, expect string) (got, res string) {
	timeout := 3 * time.Second
	if atomic.LoadInt32(&orchVainWaits) >= 12 {
		timeout = 150 * time.Millisecond
	}
	if expect == "none" {
		timeout = 40 * time.Millisecond
	}
	deadline := time.After(timeout)
	for {
		select {
		case s := <-r.signals:
			if s.c == c {
				return s.what, s.res
			}
			// a signal of another call (e.g. a zombie): report it as part of this step
			return fmt.Sprintf("other:%d:%s", s.c, s.what), s.res
		case <-deadline:
			if expect != "none" {
				atomic.AddInt32(&orchVainWaits, 1)
			}
			return "none", ""
		}
	}
}

func orchExec(ti int, sc orchScenario) []obj {
	lines := []obj{{"t": ti, "e": "reset", "membership": sc.Membership, "participants": sc.Participants}}
	r := newOrchRun(sc)
	for _, op := range sc.Ops {
		r.mu.Lock()
		r.onmsg, r.synch, r.sends = nil, nil, nil
		r.mu.Unlock()
		got, res, panicked := "", "", ""
		switch op.E {
		case "setmap":
			// the application's membership changes between two sessions (same nodes, other parties)
			mm := map[tss.UniversalID]tss.PartyID{}
			for k, v := range op.Map {
				var n int
				fmt.Sscan(k, &n)
				mm[tss.UniversalID(n)] = tss.PartyID(v)
			}
			r.mu.Lock()
			r.membership = mm
			r.mu.Unlock()
			lines = append(lines, obj{"t": ti, "e": "setmap", "membership": op.Map})
			continue
		case "call":
			ctx, cancel := context.WithCancel(context.Background())
			c := &orchCall{id: op.C, kind: op.Kind, topic: op.Topic, plan: op.Plan, cancel: cancel,
				decide: map[string]chan string{"s1": make(chan string, 1), "s2": make(chan string, 1), "reg": make(chan string, 1)}}
			r.mu.Lock()
			r.calls[op.C] = c
			if op.Label == "held" {
				// the call is started but kept inside the construction of its first synchroniser (before / while it checks for a session
				// on the topic) until a "release" operation: it is not registered as the owner of the topic before
				c.gate = make(chan struct{})
				r.holdNext = c.gate
			} else if op.Kind == "kg" {
				r.byTopic["DKG"] = append(r.byTopic["DKG"], [2]interface{}{op.C, "s1"})
				r.byTopic["DKG2"] = append(r.byTopic["DKG2"], [2]interface{}{op.C, "s2"})
				r.byTopic["DKG2d"] = append(r.byTopic["DKG2d"], [2]interface{}{op.C, "s2"})
			} else {
				r.byTopic[op.Topic] = append(r.byTopic[op.Topic], [2]interface{}{op.C, "s1"})
				r.byTopic[op.Topic+"2"] = append(r.byTopic[op.Topic+"2"], [2]interface{}{op.C, "s2"})
			}
			r.mu.Unlock()
			r.current = c
			go func() {
				var err error
				var out []byte
				func() {
					defer func() {
						if p := recover(); p != nil {
							err = fmt.Errorf("PANIC: %v", p)
						}
					}()
					if op.Kind == "kg" {
						out, err = r.sch.KeyGen(ctx, len(sc.Participants), sc.Threshold)
					} else {
						r.sch.SetStoredData([]byte("share"))
						out, err = r.sch.Sign(ctx, []byte("digest-of-32-bytes-0123456789abcd"), op.Topic)
					}
				}()
				rs := "ok"
				if err != nil {
					rs = "err:" + err.Error()
				} else if len(out) == 0 {
					rs = "ok-empty"
				}
				r.signals <- orchSignal{c: op.C, what: "ret", res: rs}
			}()
			if op.Label == "held" {
				time.Sleep(15 * time.Millisecond)
				lines = append(lines, obj{"t": ti, "e": "callheld", "c": op.C})
				continue
			}
			got, res = r.await(op.C, op.Expect)
		case "release":
			c := r.calls[op.C]
			r.mu.Lock()
			r.byTopic[c.topic] = append(r.byTopic[c.topic], [2]interface{}{op.C, "s1"})
			r.byTopic[c.topic+"2"] = append(r.byTopic[c.topic+"2"], [2]interface{}{op.C, "s2"})
			r.mu.Unlock()
			close(c.gate)
			got, res = r.await(op.C, op.Expect)
			// reported as the call it is: the call takes effect now
			op.E, op.Kind, op.Topic, op.Plan = "call", c.kind, c.topic, c.plan
		case "step", "late":
			c := r.calls[op.C]
			stage := op.Label // the stage to resolve: s1 | s2 | be
			outcome := map[string]string{"s1": c.plan.S1, "s2": c.plan.S2, "be": c.plan.Be, "reg": "ok"}[stage]
			if op.E == "late" {
				outcome = "ok"
			}
			r.current = c
			if stage == "be" {
				if c.backend != nil {
					rs := scripted.Result{Data: []byte("result")}
					if outcome != "ok" {
						rs = scripted.Result{Err: fmt.Errorf("harness: protocol failed")}
					}
					c.backend.Release <- rs
				}
			} else {
				c.decide[stage] <- outcome
			}
			got, res = r.await(op.C, op.Expect)
		case "cancel":
			r.calls[op.C].cancel()
			got, res = r.await(op.C, op.Expect)
		case "emit":
			c := r.calls[op.C]
			if c.backend != nil {
				func() {
					defer func() {
						if p := recover(); p != nil {
							panicked = fmt.Sprint(p)
						}
					}()
					if op.To == 0 {
						c.backend.Emit(scripted.EncodePayload('B', 1, []byte("b")), true, 0)
					} else {
						c.backend.Emit(scripted.EncodePayload('P', 1, []byte("p")), false, uint16(op.To))
					}
				}()
			}
			got = "none"
		case "inject":
			var topic []byte
			for h, n := range r.names {
				if n == op.Topic {
					topic, _ = hex.DecodeString(h)
				}
			}
			m := &tss.IncMessage{Source: uint16(op.From), Topic: topic}
			if op.Kind == "sync" {
				m.MsgType = uint8(tss.MsgTypeSync)
				m.Data = []byte("late synchroniser message")
			} else {
				m.MsgType = uint8(tss.MsgTypeMPC)
				m.Data = append([]byte{255}, scripted.EncodePayload('P', 1, []byte("late"))...)
			}
			func() {
				defer func() {
					if p := recover(); p != nil {
						panicked = fmt.Sprint(p)
					}
				}()
				r.sch.HandleMessage(m)
			}()
			got = "none"
		}
		if got == "ret" {
			r.mu.Lock()
			r.calls[op.C].done = true
			r.mu.Unlock()
		}
		time.Sleep(2 * time.Millisecond) // let deferred clean-up of the goroutines that just finished run
		r.mu.Lock()
		onmsg, synch, sends := r.onmsg, r.synch, r.sends
		r.mu.Unlock()
		if onmsg == nil {
			onmsg = []obj{}
		}
		if synch == nil {
			synch = []obj{}
		}
		if sends == nil {
			sends = []obj{}
		}
		initp := []int{}
		initc := 0
		if c := r.calls[op.C]; c != nil && c.backend != nil {
			n, parties, _, _ := c.backend.Snapshot()
			initc = n
			for _, p := range parties {
				initp = append(initp, int(p))
			}
		}
		rc := "none"
		switch {
		case res == "":
		case res == "ok":
			rc = "ok"
		case len(res) > 10 && res[:10] == "err:PANIC:":
			rc = "panic"
		case res == "err:context canceled":
			rc = "ctx"
		case len(res) > 4 && (contains(res, "already signing") || contains(res, "already running")):
			rc = "refused"
		default:
			rc = "err"
		}
		// a lock of the orchestrator that is never released again shows here: the table snapshot does not return
		tch := make(chan obj, 1)
		go func() { tch <- r.tables() }()
		var tables obj
		select {
		case tables = <-tch:
		case <-time.After(3 * time.Second):
			lines = append(lines, obj{"t": ti, "e": "crash", "hang": true, "detail": fmt.Sprintf("the orchestrator is wedged after %s of call %d (its lock is never released)", op.E, op.C)})
			return append(lines, obj{"t": ti, "e": "end"})
		}
		lines = append(lines, obj{"t": ti, "e": op.E, "c": op.C, "kind": op.Kind, "topic": op.Topic, "label": op.Label, "from": op.From, "to": op.To,
			"expect": op.Expect, "got": got, "res": rc, "detail": res, "tables": tables, "onmsg": onmsg, "synch": synch, "sends": sends,
			"panic": panicked, "initn": initc, "initp": initp, "probe": op.Probe, "plan": op.Plan, "self": sc.Self,
			"participants": sc.Participants, "dupparticipants": sc.DupParticipants})
	}
	// release whatever is still blocked so that goroutines end
	for _, c := range r.calls {
		c.cancel()
		for _, ch := range c.decide {
			select {
			case ch <- "err":
			default:
			}
		}
		r.mu.Lock()
		c.regSeen = true
		r.mu.Unlock()
		if c.backend != nil {
			select {
			case c.backend.Release <- scripted.Result{Err: fmt.Errorf("end")}:
			default:
			}
		}
	}
	return append(lines, obj{"t": ti, "e": "end"})
}

func contains(s, sub string) bool {
	for i := 0; i+len(sub) <= len(s); i++ {
		if s[i:i+len(sub)] == sub {
			return true
		}
	}
	return false
}

// The code under test may panic in a goroutine of its own (which cannot be recovered from outside): scenarios run in child
// processes; a crash is attributed to the scenario that was running and the rest of the chunk is re-run in a new child.
func init() {
	commands["orch-child"] = func() {
		var job orchJob
		readJob(&job)
		em := newEmitter()
		for i, sc := range job.Scenarios {
			em.lines(orchExec(job.Base+i, sc))
			em.flush()
		}
	}
	commands["orch"] = func() {
		var job orchJob
		readJob(&job)
		em := newEmitter()
		defer em.flush()
		runInChildren("orch-child", len(job.Scenarios), job.Workers, 25, func(lo, hi int) interface{} {
			return orchJob{Scenarios: job.Scenarios[lo:hi], Base: lo}
		}, em)
	}
}
