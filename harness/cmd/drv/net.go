package main

// net: conformance driver for the bundled TLS transport (github.com/IBM/TSS/net), properties C16 and C17.
//
//   drv net-mat   writes key material (CA, server certificate, identities of every key type) as JSON on stdout
//   drv net-hs    C16: executes handshake cases enumerated by TLC from spec/Net.tla against the REAL comm.Listen +
//                 comm.ServiceConnections over loopback TLS (raw TLS client = attacker; real comm.SocketRemoteParties =
//                 honest peers), one frame after every handshake, an honest frame before and after on other connections
//   drv net-fr    C17: runs framing / fault scenarios on real parties (real listeners, real senders, several sending
//                 goroutines; faulty peer = closed port / late listener / raw TLS server that never reads / raw TLS client
//                 that writes broken frames / raw recording server with an independent frame decoder)
//
// Every sub-command writes ndjson events. A case may crash the process (a panic in a goroutine of the code under
// test): lines are written unbuffered, "start" before a case touches the code, "end" after, so the parent attributes a
// crash to the cases in flight and re-runs them one by one.

import (
	"bytes"
	"crypto"
	"crypto/ecdsa"
	"crypto/ed25519"
	"crypto/elliptic"
	"crypto/rand"
	"crypto/rsa"
	"crypto/sha256"
	"crypto/tls"
	"crypto/x509"
	"crypto/x509/pkix"
	"encoding/asn1"
	"encoding/binary"
	"encoding/hex"
	"encoding/json"
	"encoding/pem"
	"fmt"
	"io"
	"math/big"
	"net"
	"os"
	"runtime/debug"
	"strings"
	"sync"
	"sync/atomic"
	"syscall"
	"time"

	comm "github.com/IBM/TSS/net"
	"github.com/IBM/TSS/testutil/tlsgen"
)

const nxLimit = 1024 * 1024 * 20 // the documented frame limit (20 MiB); kept independent of the code under test

// ---- output ------------------------------------------------------------------------------------------------------

// nxOut writes ndjson lines unbuffered to the original stdout. The code under test prints to os.Stdout
// (fmt.Printf in handleConn), so os.Stdout is redirected to stderr before any real code runs.
type nxOut struct {
	mu sync.Mutex
	f  *os.File
	n  int
}

func nxNewOut() *nxOut {
	o := &nxOut{f: os.Stdout}
	os.Stdout = os.Stderr
	return o
}

func (o *nxOut) line(l obj) {
	o.mu.Lock()
	defer o.mu.Unlock()
	o.n++
	l["seq"] = o.n
	b, err := json.Marshal(l)
	if err != nil {
		nxFatal("marshal: %v", err)
	}
	b = append(b, '\n')
	if _, err := o.f.Write(b); err != nil {
		nxFatal("write: %v", err)
	}
}

// machinery failure of the driver itself: exit code 3 (a panic of the code under test exits with 2)
func nxFatal(format string, a ...interface{}) {
	fmt.Fprintf(os.Stderr, "drv-net-fatal: "+format+"\n", a...)
	os.Exit(3)
}

type nxLogger struct{}

func (nxLogger) DebugEnabled() bool            { return false }
func (nxLogger) Debugf(string, ...interface{}) {}
func (nxLogger) Warnf(string, ...interface{})  {}

// ---- key material --------------------------------------------------------------------------------------------------

type nxIdent struct {
	Bytes  []byte `json:"bytes"` // identity bytes as presented in a handshake / registered
	Key    []byte `json:"key"`   // PKCS#8 private key belonging to the certificate inside Bytes (empty: none)
	signer crypto.Signer
}

type nxMaterial struct {
	CA      []byte              `json:"ca"`
	SrvCert []byte              `json:"srv_cert"`
	SrvKey  []byte              `json:"srv_key"`
	Idents  map[string]*nxIdent `json:"idents"`
	pool    *x509.CertPool
}

func nxSelfSigned(pub interface{}, priv crypto.Signer) []byte {
	sn, _ := rand.Int(rand.Reader, new(big.Int).Lsh(big.NewInt(1), 100))
	tpl := &x509.Certificate{
		SerialNumber: sn, Subject: pkix.Name{SerialNumber: sn.String()},
		NotBefore: time.Now().Add(-time.Hour), NotAfter: time.Now().Add(48 * time.Hour),
		KeyUsage: x509.KeyUsageDigitalSignature, ExtKeyUsage: []x509.ExtKeyUsage{x509.ExtKeyUsageClientAuth},
	}
	der, err := x509.CreateCertificate(rand.Reader, tpl, tpl, pub, priv)
	if err != nil {
		nxFatal("create certificate: %v", err)
	}
	return pem.EncodeToMemory(&pem.Block{Type: "CERTIFICATE", Bytes: der})
}

func nxPKCS8(k interface{}) []byte {
	b, err := x509.MarshalPKCS8PrivateKey(k)
	if err != nil {
		nxFatal("pkcs8: %v", err)
	}
	return b
}

func nxGenMaterial() *nxMaterial {
	ca, err := tlsgen.NewCA()
	if err != nil {
		nxFatal("CA: %v", err)
	}
	srv, err := ca.NewServerCertKeyPair("127.0.0.1")
	if err != nil {
		nxFatal("server certificate: %v", err)
	}
	m := &nxMaterial{CA: ca.CertBytes(), SrvCert: srv.Cert, SrvKey: srv.Key, Idents: map[string]*nxIdent{}}
	// identities issued the way the repository's tests do (ECDSA P-256 client certificates of the test CA)
	for _, n := range []string{"A", "U", "N1", "N2", "N3", "N4", "N5"} {
		p, err := ca.NewClientCertKeyPair()
		if err != nil {
			nxFatal("client certificate: %v", err)
		}
		m.Idents[n] = &nxIdent{Bytes: p.Cert, Key: nxPKCS8(p.Signer)}
	}
	// other key types (self-signed: the transport never verifies the chain of an identity, it compares the bytes)
	k384, _ := ecdsa.GenerateKey(elliptic.P384(), rand.Reader)
	m.Idents["B"] = &nxIdent{Bytes: nxSelfSigned(&k384.PublicKey, k384), Key: nxPKCS8(k384)}
	for _, n := range []string{"Rr", "Ru"} {
		k, err := rsa.GenerateKey(rand.Reader, 2048)
		if err != nil {
			nxFatal("rsa: %v", err)
		}
		m.Idents[n] = &nxIdent{Bytes: nxSelfSigned(&k.PublicKey, k), Key: nxPKCS8(k)}
	}
	for _, n := range []string{"Er", "Eu"} {
		pub, k, _ := ed25519.GenerateKey(rand.Reader)
		m.Idents[n] = &nxIdent{Bytes: nxSelfSigned(pub, k), Key: nxPKCS8(k)}
	}
	a := m.Idents["A"]
	m.Idents["Ajunk"] = &nxIdent{Bytes: append(append([]byte{}, a.Bytes...), []byte("trailing junk after the PEM block\n")...), Key: a.Key}
	m.Idents["nlA"] = &nxIdent{Bytes: append([]byte("\n"), a.Bytes...), Key: a.Key}
	m.Idents["nonpem"] = &nxIdent{Bytes: []byte("this is not PEM data")}
	m.Idents["noncert"] = &nxIdent{Bytes: pem.EncodeToMemory(&pem.Block{Type: "CERTIFICATE", Bytes: []byte{0x30, 0x03, 0x02, 0x01, 0x01}})}
	m.Idents["empty"] = &nxIdent{Bytes: nil}
	return m
}

func (m *nxMaterial) init() {
	m.pool = x509.NewCertPool()
	if !m.pool.AppendCertsFromPEM(m.CA) {
		nxFatal("bad CA certificate in material")
	}
	for n, id := range m.Idents {
		if len(id.Key) == 0 {
			continue
		}
		k, err := x509.ParsePKCS8PrivateKey(id.Key)
		if err != nil {
			nxFatal("identity %s: %v", n, err)
		}
		s, ok := k.(crypto.Signer)
		if !ok {
			nxFatal("identity %s: key cannot sign", n)
		}
		id.signer = s
	}
}

func nxLoadMaterial(path string) *nxMaterial {
	var m *nxMaterial
	if path == "" {
		m = nxGenMaterial()
	} else {
		b, err := os.ReadFile(path)
		if err != nil {
			nxFatal("material: %v", err)
		}
		m = &nxMaterial{}
		if err := json.Unmarshal(b, m); err != nil {
			nxFatal("material: %v", err)
		}
	}
	m.init()
	return m
}

func nxSign(s crypto.Signer, digest []byte) []byte {
	var sig []byte
	var err error
	switch k := s.(type) {
	case *ecdsa.PrivateKey:
		sig, err = ecdsa.SignASN1(rand.Reader, k, digest)
	case *rsa.PrivateKey:
		sig, err = rsa.SignPKCS1v15(rand.Reader, k, crypto.SHA256, digest)
	case ed25519.PrivateKey:
		sig = ed25519.Sign(k, digest)
	default:
		nxFatal("unknown key type %T", s)
	}
	if err != nil {
		nxFatal("sign: %v", err)
	}
	return sig
}

func nxSHA(b ...[]byte) []byte {
	h := sha256.New()
	for _, x := range b {
		h.Write(x)
	}
	return h.Sum(nil)
}

var nxDoms = map[string]string{"d1": "d1", "d2": "d2", "e": "", "dx": "dx", "dn": "dn", "dnl": "dn\n"}

func nxDom(name string) string {
	d, ok := nxDoms[name]
	if !ok {
		nxFatal("unknown domain name %q", name)
	}
	return d
}

// the lookup key the application registers for (domain, identity), as the repository's tests build it
func nxRegKey(dom string, ident []byte) string {
	return hex.EncodeToString(nxSHA([]byte(dom), ident))
}

// an honest peer's AuthFunc (the repository's tests, plus the domain which has to be part of what is signed)
func nxHonestAuth(id *nxIdent, dom string) func([]byte) comm.Handshake {
	return func(binding []byte) comm.Handshake {
		h := comm.Handshake{Domain: dom, TLSBinding: binding, Identity: id.Bytes, Timestamp: time.Now().Unix()}
		h.Signature = nxSign(id.signer, nxSHA(h.Bytes()))
		return h
	}
}

// ---- raw TLS client / frame codec (independent of the code under test) --------------------------------------------------------

func nxDialRaw(m *nxMaterial, addr string) (*tls.Conn, []byte, error) {
	d := &net.Dialer{Timeout: 10 * time.Second}
	c, err := tls.DialWithDialer(d, "tcp", addr, &tls.Config{RootCAs: m.pool, MinVersion: tls.VersionTLS13})
	if err != nil {
		return nil, nil, err
	}
	cs := c.ConnectionState()
	b, err := cs.ExportKeyingMaterial("MPC", []byte("MPC"), 32)
	if err != nil {
		c.Close()
		return nil, nil, err
	}
	return c, b, nil
}

func nxFrame(ty int, topic []byte, data []byte) []byte {
	b := make([]byte, 5, 5+len(topic)+len(data))
	b[0] = byte(ty)
	binary.LittleEndian.PutUint32(b[1:], uint32(len(data)))
	b = append(b, topic...)
	return append(b, data...)
}

func nxNeedsTopic(ty int) bool { return ty == 1 || ty == 2 }

func nxReadFrame(r io.Reader) (ty int, topic, data []byte, err error) {
	hdr := make([]byte, 5)
	if _, err = io.ReadFull(r, hdr); err != nil {
		return
	}
	ty = int(hdr[0])
	n := binary.LittleEndian.Uint32(hdr[1:])
	if n > nxLimit {
		err = fmt.Errorf("oversize %d", n)
		return
	}
	if nxNeedsTopic(ty) {
		topic = make([]byte, 32)
		if _, err = io.ReadFull(r, topic); err != nil {
			return
		}
	}
	data = make([]byte, n)
	_, err = io.ReadFull(r, data)
	return
}

// ---- DER helpers -------------------------------------------------------------------------------------------------------

func nxDERLen(n int) []byte {
	switch {
	case n < 128:
		return []byte{byte(n)}
	case n < 256:
		return []byte{0x81, byte(n)}
	default:
		return []byte{0x82, byte(n >> 8), byte(n)}
	}
}

func nxTLV(tag byte, content []byte) []byte {
	return append(append([]byte{tag}, nxDERLen(len(content))...), content...)
}

// header length and content of the TLV at the start of b
func nxParseTLV(b []byte) (hdr int, n int) {
	if len(b) < 2 {
		nxFatal("short TLV")
	}
	switch {
	case b[1] < 128:
		return 2, int(b[1])
	case b[1] == 0x81:
		return 3, int(b[2])
	case b[1] == 0x82:
		return 4, int(b[2])<<8 | int(b[3])
	}
	nxFatal("unsupported DER length")
	return
}

// the child TLVs of a SEQUENCE
func nxSplitSeq(der []byte) [][]byte {
	hdr, n := nxParseTLV(der)
	if der[0] != 0x30 || hdr+n != len(der) {
		nxFatal("not a DER sequence")
	}
	var kids [][]byte
	rest := der[hdr:]
	for len(rest) > 0 {
		h, l := nxParseTLV(rest)
		kids = append(kids, rest[:h+l])
		rest = rest[h+l:]
	}
	return kids
}

func nxCat(bs ...[]byte) []byte { return bytes.Join(bs, nil) }

// ---- C16: handshake cases ----------------------------------------------------------------------------------------------

type nxCase struct {
	ID    int    `json:"id"`
	Dom   string `json:"dom"`
	Bind  string `json:"bind"`  // own | other | rand | empty | short
	Ident string `json:"ident"` // name of an identity of the material
	Ts    string `json:"ts"`    // now | old
	By    string `json:"by"`    // own | kA | kB | kU | none | garbage
	Over  string `json:"over"`  // sent | otherconn | origA | junk
	Enc   string `json:"enc"`   // ok | tmid<k> | tend<k> | sfix<k> | scut<k> | tfrac<0..63> | sfrac<0..63> | trailin | trailseq | lenshort | lenlongeof | lenzero | wtag<k> | altstr | nonminlen | intpad | settag | indef | emptyseq
}

type nxReg struct {
	Node  int    `json:"node"`
	Dom   string `json:"dom"`
	Ident string `json:"ident"`
}

type nxHSJob struct {
	Material  string   `json:"material"`
	Reg       []nxReg  `json:"registered"`
	Cases     []nxCase `json:"cases"`
	Workers   int      `json:"workers"`
	Listeners int      `json:"listeners"`
	GraceMs   int      `json:"grace_ms"`
	FinalMs   int      `json:"final_ms"`
	HonestPre nxReg    `json:"honest_pre"`  // registered peer used for the honest frame before the attack (persistent connection)
	HonestPst nxReg    `json:"honest_post"` // registered peer used for the honest frame after the attack (fresh connection)
}

type nxWait struct {
	atk, hpre, hpost chan struct{}
	once             [3]sync.Once
}

type nxHSListener struct {
	addr string
	pre  comm.SocketRemoteParties
	stop func()
}

type nxHS struct {
	job   nxHSJob
	mat   *nxMaterial
	out   *nxOut
	lsns  []*nxHSListener
	mu    sync.Mutex
	waits map[int]*nxWait
	// number of cases whose honest frames were not served within the deadline
	unserved int32
}

func nxPayload(id int, role string) []byte { return []byte(fmt.Sprintf("C16 %d %s", id, role)) }

func (h *nxHS) consume(k int, in <-chan comm.InMsg) {
	for msg := range in {
		var id int
		var role string
		n, _ := fmt.Sscanf(string(msg.Data), "C16 %d %s", &id, &role)
		if n != 2 || (role != "atk" && role != "hpre" && role != "hpost") {
			h.out.line(obj{"e": "in", "c": -1, "role": "?", "from": int(msg.From), "dom": msg.Domain, "lsn": k, "intact": false, "raw": hex.EncodeToString(msg.Data[:nxMin(len(msg.Data), 48)])})
			continue
		}
		intact := msg.Type == 2 && bytes.Equal(msg.Topic, nxSHA(msg.Data)) && bytes.Equal(msg.Data, nxPayload(id, role))
		h.out.line(obj{"e": "in", "c": id, "role": role, "from": int(msg.From), "dom": msg.Domain, "lsn": k, "intact": intact})
		h.mu.Lock()
		w := h.waits[id]
		h.mu.Unlock()
		if w != nil {
			switch role {
			case "atk":
				w.once[0].Do(func() { close(w.atk) })
			case "hpre":
				w.once[1].Do(func() { close(w.hpre) })
			case "hpost":
				w.once[2].Do(func() { close(w.hpost) })
			}
		}
	}
}

func nxMin(a, b int) int {
	if a < b {
		return a
	}
	return b
}

func (h *nxHS) honestParty(addr string, r nxReg) comm.SocketRemoteParties {
	id := h.mat.Idents[r.Ident]
	dom := nxDom(r.Dom)
	rp := comm.NewSocketRemoteParty(comm.PartyConnectionConfig{AuthFunc: nxHonestAuth(id, dom), Domain: dom, Id: 0, Endpoint: addr, TlsCAs: h.mat.pool}, nxLogger{})
	return comm.SocketRemoteParties{0: rp}
}

// what the attacker writes on its connection: the length prefix, the bytes after it, whether the stream ends there
type nxWire struct {
	prefix   int
	body     []byte
	closeWr  bool
	hasFrame bool
}

func (h *nxHS) build(c nxCase, b1, b2 []byte) nxWire {
	id, ok := h.mat.Idents[c.Ident]
	if !ok {
		nxFatal("case %d: unknown identity %q", c.ID, c.Ident)
	}
	dom := nxDom(c.Dom)
	var bind []byte
	switch c.Bind {
	case "own":
		bind = b1
	case "other":
		bind = b2
	case "rand":
		bind = make([]byte, 32)
		rand.Read(bind)
	case "empty":
		bind = nil
	case "short":
		bind = b1[:31]
	default:
		nxFatal("case %d: unknown binding %q", c.ID, c.Bind)
	}
	ts := time.Now().Unix()
	if c.Ts == "old" {
		ts -= 3600
	} else if c.Ts != "now" {
		nxFatal("case %d: unknown ts %q", c.ID, c.Ts)
	}
	sent := comm.Handshake{Domain: dom, TLSBinding: bind, Identity: id.Bytes, Timestamp: ts}
	var digest []byte
	switch c.Over {
	case "sent":
		digest = nxSHA(sent.Bytes())
	case "otherconn":
		o := sent
		o.TLSBinding = b2
		digest = nxSHA(o.Bytes())
	case "origA":
		o := comm.Handshake{Domain: nxDom("d1"), TLSBinding: b1, Identity: h.mat.Idents["A"].Bytes, Timestamp: time.Now().Unix()}
		if c.Dom == "d1" && c.Bind == "own" && c.Ident == "A" && c.Ts == "now" {
			o = sent // the very same handshake (same second)
		}
		digest = nxSHA(o.Bytes())
	case "junk":
		digest = nxSHA([]byte("bytes that are not a handshake"))
	default:
		nxFatal("case %d: unknown over %q", c.ID, c.Over)
	}
	var signer crypto.Signer
	switch c.By {
	case "own":
		signer = id.signer
	case "kA":
		signer = h.mat.Idents["A"].signer
	case "kB":
		signer = h.mat.Idents["B"].signer
	case "kU":
		signer = h.mat.Idents["U"].signer
	case "none", "garbage":
	default:
		nxFatal("case %d: unknown by %q", c.ID, c.By)
	}
	switch {
	case signer != nil:
		sent.Signature = nxSign(signer, digest)
	case c.By == "none":
		sent.Signature = nil
	default: // garbage, or "own" of an identity without a key
		g := make([]byte, 70)
		rand.Read(g)
		g[0], g[1] = 0x30, 68
		sent.Signature = g
	}
	der := sent.Bytes()
	kids := nxSplitSeq(der)
	if len(kids) != 5 {
		nxFatal("handshake has %d fields", len(kids))
	}
	off := make([]int, 6) // off[k] = offset of field k+1 in der; off[5] = len(der)
	hdr, _ := nxParseTLV(der)
	off[0] = hdr
	for i, k := range kids {
		off[i+1] = off[i] + len(k)
	}
	w := nxWire{prefix: len(der), body: der, hasFrame: true}
	enc := c.Enc
	num := 0
	if strings.HasPrefix(enc, "tfrac") || strings.HasPrefix(enc, "sfrac") {
		if _, err := fmt.Sscan(enc[5:], &num); err != nil || num < 0 || num > 63 {
			nxFatal("case %d: bad encoding %q", c.ID, c.Enc)
		}
		enc = enc[:5]
	} else if l := len(enc); l > 0 && enc[l-1] >= '1' && enc[l-1] <= '5' {
		num = int(enc[l-1] - '0')
		enc = enc[:l-1]
	}
	mid := func(k int) int { // an offset strictly inside field k
		m := off[k-1] + (len(kids[k-1])+1)/2
		if m <= off[k-1] {
			m = off[k-1] + 1
		}
		return m
	}
	retag := func(k int, tag byte) []byte {
		ks := make([][]byte, 5)
		copy(ks, kids)
		x := append([]byte{}, kids[k-1]...)
		x[0] = tag
		ks[k-1] = x
		return nxTLV(0x30, nxCat(ks...))
	}
	switch enc {
	case "ok":
	case "tmid":
		w.body = der[:mid(num)]
		w.prefix = len(w.body)
	case "tend":
		w.body = der[:off[num]]
		w.prefix = len(w.body)
	case "sfix":
		w.body = nxTLV(0x30, nxCat(kids[:num]...))
		w.prefix = len(w.body)
	case "scut":
		w.body = der[:mid(num)]
		w.closeWr, w.hasFrame = true, false
	case "tfrac":
		w.body = der[:len(der)*num/64]
		w.prefix = len(w.body)
	case "sfrac":
		w.body = der[:len(der)*num/64]
		w.closeWr, w.hasFrame = true, false
	case "trailin":
		w.body = nxCat(der, []byte{1, 2, 3, 4})
		w.prefix = len(w.body)
	case "trailseq":
		w.body = nxTLV(0x30, nxCat(nxCat(kids...), []byte{0x02, 0x01, 0x07}))
		w.prefix = len(w.body)
	case "lenshort":
		w.prefix = len(der) - 1
	case "lenlongeof":
		w.prefix = len(der) + 7
		w.closeWr, w.hasFrame = true, false
	case "lenzero":
		w.prefix = 0
	case "wtag":
		tag := byte(0x0c)
		if num == 1 {
			tag = 0x02
		} else if num == 4 {
			tag = 0x04
		}
		w.body = retag(num, tag)
		w.prefix = len(w.body)
	case "altstr":
		w.body = retag(1, 0x16) // IA5String instead of PrintableString / UTF8String
		w.prefix = len(w.body)
	case "nonminlen":
		h1, n1 := nxParseTLV(kids[0])
		x := nxCat([]byte{kids[0][0], 0x81, byte(n1)}, kids[0][h1:])
		w.body = nxTLV(0x30, nxCat(x, nxCat(kids[1:]...)))
		w.prefix = len(w.body)
	case "intpad":
		h4, _ := nxParseTLV(kids[3])
		x := nxTLV(0x02, nxCat([]byte{0}, kids[3][h4:]))
		w.body = nxTLV(0x30, nxCat(nxCat(kids[:3]...), x, kids[4]))
		w.prefix = len(w.body)
	case "settag":
		w.body = append([]byte{}, der...)
		w.body[0] = 0x31
	case "indef":
		w.body = nxCat([]byte{0x30, 0x80}, nxCat(kids...), []byte{0, 0})
		w.prefix = len(w.body)
	case "emptyseq":
		w.body = []byte{0x30, 0x00}
		w.prefix = 2
	default:
		nxFatal("case %d: unknown encoding %q", c.ID, c.Enc)
	}
	if w.prefix > 65535 {
		nxFatal("case %d: handshake too long", c.ID)
	}
	return w
}

func (h *nxHS) runCase(c nxCase) {
	l := h.lsns[c.ID%len(h.lsns)]
	w := &nxWait{atk: make(chan struct{}), hpre: make(chan struct{}), hpost: make(chan struct{})}
	h.mu.Lock()
	h.waits[c.ID] = w
	h.mu.Unlock()
	h.out.line(obj{"e": "start", "c": c.ID})
	// honest frame before, on the long-lived honest connection of this listener
	d := nxPayload(c.ID, "hpre")
	l.pre.Send(2, nxSHA(d), d, 0)
	// the attacker's connection(s)
	c1, b1, err := nxDialRaw(h.mat, l.addr)
	if err != nil {
		h.out.line(obj{"e": "end", "c": c.ID, "err": "dial: " + err.Error()})
		return
	}
	defer c1.Close()
	var b2 []byte
	if c.Bind == "other" || c.Over == "otherconn" {
		c2, b, err := nxDialRaw(h.mat, l.addr)
		if err != nil {
			h.out.line(obj{"e": "end", "c": c.ID, "err": "dial: " + err.Error()})
			return
		}
		defer c2.Close()
		b2 = b
	}
	wire := h.build(c, b1, b2)
	pre := make([]byte, 2)
	binary.LittleEndian.PutUint16(pre, uint16(wire.prefix))
	c1.SetWriteDeadline(time.Now().Add(20 * time.Second))
	_, err = c1.Write(nxCat(pre, wire.body))
	if err == nil && wire.hasFrame {
		d := nxPayload(c.ID, "atk")
		_, err = c1.Write(nxFrame(2, nxSHA(d), d))
	}
	if err == nil && wire.closeWr {
		c1.CloseWrite()
	}
	werr := ""
	if err != nil {
		werr = err.Error() // the server may have dropped the connection already; not an error of the case
	}
	// honest frame after, on a fresh honest connection
	post := h.honestParty(l.addr, h.job.HonestPst)
	d = nxPayload(c.ID, "hpost")
	post.Send(2, nxSHA(d), d, 0)
	// honest frames normally arrive within milliseconds; 30 s is the margin against load. Once three cases have waited in vain the
	// honest service is broken for good (every further case would be reported as well): stop paying 30 s per case.
	served := true
	wait := 30 * time.Second
	if atomic.LoadInt32(&h.unserved) >= 3 {
		wait = 500 * time.Millisecond
	}
	deadline := time.Now().Add(wait)
	for _, ch := range []chan struct{}{w.hpre, w.hpost} {
		select {
		case <-ch:
		case <-time.After(time.Until(deadline)):
			served = false
		}
	}
	if !served {
		atomic.AddInt32(&h.unserved, 1)
	}
	select {
	case <-w.atk:
	case <-time.After(time.Duration(h.job.GraceMs) * time.Millisecond):
	}
	h.out.line(obj{"e": "end", "c": c.ID, "honest_served": served, "werr": werr})
}

func nxRunHS() {
	out := nxNewOut()
	var job nxHSJob
	readJob(&job)
	h := &nxHS{job: job, out: out, waits: map[int]*nxWait{}}
	h.mat = nxLoadMaterial(job.Material)
	p2id := map[string]uint16{}
	for _, r := range job.Reg {
		id, ok := h.mat.Idents[r.Ident]
		if !ok {
			nxFatal("registered identity %q unknown", r.Ident)
		}
		p2id[nxRegKey(nxDom(r.Dom), id.Bytes)] = uint16(r.Node)
	}
	if job.Listeners < 1 {
		job.Listeners = 1
	}
	for k := 0; k < job.Listeners; k++ {
		lsn := comm.Listen("127.0.0.1:0", h.mat.SrvCert, h.mat.SrvKey)
		in, stop := comm.ServiceConnections(lsn, p2id, nxLogger{})
		l := &nxHSListener{addr: lsn.Addr().String(), stop: stop}
		l.pre = h.honestParty(l.addr, job.HonestPre)
		h.lsns = append(h.lsns, l)
		go h.consume(k, in)
	}
	out.line(obj{"e": "ready", "listeners": len(h.lsns)})
	parallel(len(job.Cases), job.Workers, func(i int) { h.runCase(job.Cases[i]) })
	time.Sleep(time.Duration(job.FinalMs) * time.Millisecond) // late attributions are still recorded (payloads carry the case)
	out.line(obj{"e": "done"})
}

// ---- C17: framing / fault scenarios ---------------------------------------------------------------------------------------

type nfMsg struct {
	Ty      int   `json:"ty"`
	Topic   bool  `json:"topic"`
	Size    int   `json:"size"`
	To      []int `json:"to"`
	PauseUs int   `json:"pause_us"`
}

type nfProg struct {
	Node  int     `json:"node"`
	Msgs  []nfMsg `json:"msgs"`
	Flood int     `json:"flood"` // > 0: repeat Msgs[0] up to Flood times or until a call waited for the enqueue timeout, then Msgs[1:]
}

type nfRawFrame struct {
	Kind  string `json:"kind"` // valid | oversize | oversizemax | oversizefull | trunc | shorttopic | hdrstall | eof
	Ty    int    `json:"ty"`
	Topic bool   `json:"topic"`
	Size  int    `json:"size"`
}

type nfRawConn struct {
	To     int          `json:"to"`
	PreHS  string       `json:"prehs"` // "" (valid handshake as the victim) | "garbage" | "none"
	Frames []nfRawFrame `json:"frames"`
}

type nfScenario struct {
	ID        int         `json:"id"`
	Fault     string      `json:"fault"` // none | slow | down | late | stalled | rec | garble | install
	Stall     []string    `json:"stall"` // install: inbound peers that connect to the victim FIRST and stall: notls | nohs | halfhs | halfframe
	Victim    int         `json:"victim"`
	N         int         `json:"n"`
	Dom       string      `json:"dom"`
	Progs     []nfProg    `json:"progs"`
	Raw       []nfRawConn `json:"raw"`
	SlowUs    int         `json:"slow_us"`
	LateMs    int         `json:"late_ms"`
	TimeoutMs int         `json:"timeout_ms"`
	GraceMs   int         `json:"grace_ms"`
}

type nfJob struct {
	Vectors   map[string][]int `json:"vectors"` // payload length -> the four length bytes of the header according to spec/Net.tla
	Material  string           `json:"material"`
	Scenarios []nfScenario     `json:"scenarios"`
	Workers   int              `json:"workers"`
}

type nfNode struct {
	id      int
	ident   *nxIdent
	addr    string
	stop    func()
	parties comm.SocketRemoteParties
	release func() // frees a reserved address
	recv    bool   // deliveries to this node are observable (real listener now or later, or recording raw server)
}

type nfRun struct {
	s        nfScenario
	mat      *nxMaterial
	out      *nxOut
	nodes    map[int]*nfNode
	expected int64
	received int64
	hold     []net.Conn
	holdMu   sync.Mutex
	closers  []func()
	extra    *nxIdent // a registered peer without listener (node N+1): the stalling inbound peer that authenticates
}

// deterministic payload: the first 8 bytes carry the message id (when there is room), the rest is a xorshift stream
func nfPayload(mid uint64, size int) []byte {
	b := make([]byte, size)
	x := mid*0x9E3779B97F4A7C15 + 0x1234567
	if x == 0 {
		x = 1
	}
	for i := 0; i < size; i += 8 {
		x ^= x << 13
		x ^= x >> 7
		x ^= x << 17
		var w [8]byte
		binary.LittleEndian.PutUint64(w[:], x)
		copy(b[i:], w[:])
	}
	if size >= 8 {
		binary.BigEndian.PutUint64(b, mid)
	}
	return b
}

func nfTopic(mid uint64, has bool) []byte {
	if !has {
		return nil
	}
	var w [8]byte
	binary.BigEndian.PutUint64(w[:], mid)
	return nxSHA([]byte("topic"), w[:])
}

// the observable content of a message, digests standing in for the bytes
func nfContent(ty int, topic, data []byte) obj {
	tp := "-"
	if topic != nil {
		tp = hex.EncodeToString(nxSHA(topic)[:5]) + fmt.Sprintf("/%d", len(topic))
	}
	return obj{"ty": ty, "tp": tp, "n": len(data), "dg": hex.EncodeToString(nxSHA(data)[:6])}
}

func (r *nfRun) ev(l obj) {
	l["t"] = r.s.ID
	r.out.line(l)
}

func (r *nfRun) p2id() map[string]uint16 {
	m := map[string]uint16{}
	for _, n := range r.nodes {
		m[nxRegKey(nxDom(r.s.Dom), n.ident.Bytes)] = uint16(n.id)
	}
	if r.extra != nil {
		m[nxRegKey(nxDom(r.s.Dom), r.extra.Bytes)] = uint16(r.s.N + 1)
	}
	return m
}

// an inbound peer that is slow at connection set-up: it connects to the victim's listener and then stops for good
//
//	notls      TCP connection, never a TLS ClientHello
//	nohs       TLS established, never an authentication handshake
//	halfhs     TLS, the length prefix and half of a valid authentication handshake
//	halfframe  TLS, valid authentication (registered node N+1), half a message frame
//
// The connection stays open until the scenario ends.
func (r *nfRun) staller(kind string) {
	v := r.nodes[r.s.Victim]
	r.ev(obj{"e": "stall", "kind": kind, "to": v.id})
	keep := func(c net.Conn) {
		r.holdMu.Lock()
		r.hold = append(r.hold, c)
		r.holdMu.Unlock()
	}
	if kind == "notls" {
		c, err := net.DialTimeout("tcp", v.addr, 10*time.Second)
		if err != nil {
			nxFatal("staller could not connect: %v", err)
		}
		keep(c)
		return
	}
	// the TLS handshake needs the victim's handler goroutine: done in the background so that the order of connecting is what
	// the scenario asks for even if (mutated) code lets an earlier staller delay this one
	tc, err := net.DialTimeout("tcp", v.addr, 10*time.Second)
	if err != nil {
		nxFatal("staller could not connect: %v", err)
	}
	keep(tc)
	go func() {
		c := tls.Client(tc, &tls.Config{RootCAs: r.mat.pool, ServerName: "127.0.0.1", MinVersion: tls.VersionTLS13})
		if err := c.Handshake(); err != nil {
			return
		}
		cs := c.ConnectionState()
		binding, err := cs.ExportKeyingMaterial("MPC", []byte("MPC"), 32)
		if err != nil {
			return
		}
		h := nxHonestAuth(r.extra, nxDom(r.s.Dom))(binding)
		der := h.Bytes()
		pre := make([]byte, 2)
		binary.LittleEndian.PutUint16(pre, uint16(len(der)))
		switch kind {
		case "nohs":
		case "halfhs":
			c.Write(nxCat(pre, der[:len(der)/2]))
		case "halfframe":
			c.Write(nxCat(pre, der))
			c.Write(nxCat([]byte{2, 100, 0, 0, 0}, make([]byte, 16)))
		default:
			nxFatal("unknown stall kind %q", kind)
		}
	}()
}

func (r *nfRun) serve(n *nfNode, addr string) error {
	var lsn net.Listener
	var err error
	func() {
		defer func() {
			if p := recover(); p != nil {
				err = fmt.Errorf("%v", p)
			}
		}()
		lsn = comm.Listen(addr, r.mat.SrvCert, r.mat.SrvKey)
	}()
	if err != nil {
		return err
	}
	n.addr = lsn.Addr().String()
	in, stop := comm.ServiceConnections(lsn, r.p2id(), nxLogger{})
	n.stop = stop
	slow := time.Duration(0)
	if r.s.Fault == "slow" && n.id == r.s.Victim {
		slow = time.Duration(r.s.SlowUs) * time.Microsecond
	}
	go func() {
		for msg := range in {
			r.ev(obj{"e": "in", "at": n.id, "from": int(msg.From), "dom": msg.Domain, "m": nfContent(int(msg.Type), msg.Topic, msg.Data)})
			atomic.AddInt64(&r.received, 1)
			if slow > 0 {
				time.Sleep(slow)
			}
		}
	}()
	return nil
}

// a raw TLS server standing in for a faulty peer: "stalled" completes the TLS handshake and never reads;
// "rec" reads the handshake and the frames with the driver's own decoder and reports them as deliveries
func (r *nfRun) rawServer(n *nfNode, rec bool) {
	l, err := net.Listen("tcp", "127.0.0.1:0")
	if err != nil {
		nxFatal("listen: %v", err)
	}
	n.addr = l.Addr().String()
	r.closers = append(r.closers, func() { l.Close() })
	cert, err := tls.X509KeyPair(r.mat.SrvCert, r.mat.SrvKey)
	if err != nil {
		nxFatal("server key pair: %v", err)
	}
	cfg := &tls.Config{Certificates: []tls.Certificate{cert}, MinVersion: tls.VersionTLS13}
	byIdent := map[string]int{}
	for _, x := range r.nodes {
		byIdent[string(x.ident.Bytes)] = x.id
	}
	go func() {
		for {
			c, err := l.Accept()
			if err != nil {
				return
			}
			if tc, ok := c.(*net.TCPConn); ok && !rec {
				tc.SetReadBuffer(4096)
			}
			s := tls.Server(c, cfg)
			r.holdMu.Lock()
			r.hold = append(r.hold, s)
			r.holdMu.Unlock()
			go func() {
				if err := s.Handshake(); err != nil || !rec {
					return // stalled: never read application data
				}
				pre := make([]byte, 2)
				if _, err := io.ReadFull(s, pre); err != nil {
					return
				}
				buf := make([]byte, binary.LittleEndian.Uint16(pre))
				if _, err := io.ReadFull(s, buf); err != nil {
					return
				}
				var h comm.Handshake
				if _, err := asn1.Unmarshal(buf, &h); err != nil {
					r.ev(obj{"e": "note", "what": "recording server could not parse the handshake: " + err.Error()})
					return
				}
				from, ok := byIdent[string(h.Identity)]
				if !ok {
					return // a stray connection (a sender of a finished scenario re-dialling a re-used port): not part of this run
				}
				for {
					ty, topic, data, err := nxReadFrame(s)
					if err != nil {
						return
					}
					r.ev(obj{"e": "in", "at": n.id, "from": from, "dom": h.Domain, "m": nfContent(ty, topic, data), "rec": true})
					atomic.AddInt64(&r.received, 1)
				}
			}()
		}
	}()
}

// reserve an address at which nothing listens: the socket is bound (so no other listener of this machine can get the port
// while the scenario runs, and connection attempts are refused) but never listens
func (r *nfRun) reserve(n *nfNode) {
	fd, err := syscall.Socket(syscall.AF_INET, syscall.SOCK_STREAM, 0)
	if err != nil {
		nxFatal("socket: %v", err)
	}
	if err := syscall.Bind(fd, &syscall.SockaddrInet4{Port: 0, Addr: [4]byte{127, 0, 0, 1}}); err != nil {
		nxFatal("bind: %v", err)
	}
	sa, err := syscall.Getsockname(fd)
	if err != nil {
		nxFatal("getsockname: %v", err)
	}
	n.addr = fmt.Sprintf("127.0.0.1:%d", sa.(*syscall.SockaddrInet4).Port)
	var once sync.Once
	n.release = func() { once.Do(func() { syscall.Close(fd) }) }
	r.closers = append(r.closers, n.release)
}

// one Send call of goroutine g: logged before the call and after its return; a panic of the code under test is recovered and
// recorded (it would have killed the process)
func (r *nfRun) sendOne(n *nfNode, g string, node, k int, m nfMsg, data, topic []byte, content obj) (pan string, took time.Duration) {
	to := make([]uint16, len(m.To))
	for i, d := range m.To {
		to[i] = uint16(d)
		if r.nodes[d].recv {
			atomic.AddInt64(&r.expected, 1)
		}
	}
	r.ev(obj{"e": "call", "g": g, "k": k, "from": node, "to": m.To, "m": content})
	t0 := time.Now()
	func() {
		defer func() {
			if x := recover(); x != nil {
				st := string(debug.Stack())
				pan = fmt.Sprint(x)
				if !strings.Contains(st, "github.com/IBM/TSS/net.") {
					nxFatal("panic outside the code under test: %v\n%s", x, st)
				}
			}
		}()
		n.parties.Send(uint8(m.Ty), topic, data, to...)
	}()
	r.ev(obj{"e": "ret", "g": g, "k": k, "panic": pan})
	return pan, time.Since(t0)
}

func (r *nfRun) sender(pi int, p nfProg, wg *sync.WaitGroup) {
	defer wg.Done()
	n := r.nodes[p.Node]
	g := fmt.Sprintf("%d.%d", p.Node, pi)
	msgs := p.Msgs
	base := 0
	if p.Flood > 0 {
		// flood: repeat Msgs[0] (one shared payload) until a call has waited for the enqueue timeout (or Flood calls were made),
		// then go on with Msgs[1:]
		m := p.Msgs[0]
		mid := uint64(r.s.ID)<<40 | uint64(pi)<<24 | 0xFFFFFF
		data, topic := nfPayload(mid, m.Size), nfTopic(mid, m.Topic)
		content := nfContent(m.Ty, topic, data)
		for k := 0; k < p.Flood; k++ {
			pan, took := r.sendOne(n, g, p.Node, k, m, data, topic, content)
			if pan != "" {
				return // an unrecovered panic would have killed the process
			}
			if took > 5*time.Second {
				break
			}
		}
		msgs = p.Msgs[1:]
		base = p.Flood
	}
	for j, m := range msgs {
		if m.PauseUs > 0 {
			time.Sleep(time.Duration(m.PauseUs) * time.Microsecond)
		}
		k := base + j
		mid := uint64(r.s.ID)<<40 | uint64(pi)<<24 | uint64(k)
		data, topic := nfPayload(mid, m.Size), nfTopic(mid, m.Topic)
		if pan, _ := r.sendOne(n, g, p.Node, k, m, data, topic, nfContent(m.Ty, topic, data)); pan != "" {
			return
		}
	}
}

// the Logger handed to the real senders of one node: SocketRemoteParties.Send reports a copy it gives up after the enqueue
// timeout ("timeout sending to <id>"); that copy was not accepted for sending
type nfLogger struct {
	r    *nfRun
	node int
}

func (nfLogger) DebugEnabled() bool            { return false }
func (nfLogger) Debugf(string, ...interface{}) {}
func (l nfLogger) Warnf(format string, a ...interface{}) {
	var to int
	if n, _ := fmt.Sscanf(format, "timeout sending to %d", &to); n == 1 {
		l.r.ev(obj{"e": "drop", "from": l.node, "to": to})
		if x, ok := l.r.nodes[to]; ok && x.recv {
			atomic.AddInt64(&l.r.expected, -1)
		}
	}
}

func (r *nfRun) rawConn(ci int, rc nfRawConn, wg *sync.WaitGroup) {
	defer wg.Done()
	v := r.nodes[r.s.Victim]
	dst := r.nodes[rc.To]
	g := fmt.Sprintf("%d.raw%d", v.id, ci)
	c, binding, err := nxDialRaw(r.mat, dst.addr)
	if err != nil {
		r.ev(obj{"e": "note", "what": "raw dial failed: " + err.Error()})
		return
	}
	r.holdMu.Lock()
	r.hold = append(r.hold, c)
	r.holdMu.Unlock()
	c.SetWriteDeadline(time.Now().Add(20 * time.Second))
	switch rc.PreHS {
	case "":
		h := nxHonestAuth(v.ident, nxDom(r.s.Dom))(binding)
		if err := h.Write(c); err != nil {
			return
		}
	case "garbage":
		junk := make([]byte, 300)
		rand.Read(junk)
		c.Write(junk)
	case "none":
	}
	for k, f := range rc.Frames {
		mid := uint64(r.s.ID)<<40 | uint64(100+ci)<<24 | uint64(k)
		topic := nfTopic(mid, f.Topic)
		switch f.Kind {
		case "valid":
			data := nfPayload(mid, f.Size)
			if rc.PreHS == "" {
				atomic.AddInt64(&r.expected, 1)
				r.ev(obj{"e": "call", "g": g, "k": k, "from": v.id, "to": []int{rc.To}, "m": nfContent(f.Ty, topic, data), "raw": true})
			}
			_, err := c.Write(nxFrame(f.Ty, topic, data))
			if rc.PreHS == "" {
				r.ev(obj{"e": "ret", "g": g, "k": k, "panic": ""})
			}
			if err != nil {
				return
			}
		case "oversize", "oversizemax":
			n := uint32(nxLimit + 1)
			if f.Kind == "oversizemax" {
				n = 0xFFFFFFFF
			}
			hdr := make([]byte, 5)
			hdr[0] = byte(f.Ty)
			binary.LittleEndian.PutUint32(hdr[1:], n)
			r.ev(obj{"e": "rawbad", "g": g, "k": k, "from": v.id, "to": rc.To, "kind": f.Kind, "announced": int64(n)})
			c.Write(nxCat(hdr, topic, nfPayload(mid, 4096)))
		case "oversizefull": // announces limit+1 bytes and really delivers them
			data := nfPayload(mid, nxLimit+1)
			r.ev(obj{"e": "rawbad", "g": g, "k": k, "from": v.id, "to": rc.To, "kind": f.Kind, "announced": int64(nxLimit + 1)})
			c.SetWriteDeadline(time.Now().Add(60 * time.Second))
			c.Write(nxFrame(f.Ty, topic, data))
		case "trunc": // announces Size bytes, delivers a tenth of them, then the stream ends
			data := nfPayload(mid, f.Size)
			fr := nxFrame(f.Ty, topic, data)
			r.ev(obj{"e": "rawbad", "g": g, "k": k, "from": v.id, "to": rc.To, "kind": f.Kind, "announced": int64(f.Size)})
			c.Write(fr[:len(fr)-len(data)+len(data)/10])
			c.CloseWrite()
			return
		case "shorttopic":
			hdr := []byte{2, 5, 0, 0, 0}
			r.ev(obj{"e": "rawbad", "g": g, "k": k, "from": v.id, "to": rc.To, "kind": f.Kind, "announced": int64(5)})
			c.Write(nxCat(hdr, make([]byte, 10)))
			c.CloseWrite()
			return
		case "hdrstall":
			r.ev(obj{"e": "rawbad", "g": g, "k": k, "from": v.id, "to": rc.To, "kind": f.Kind, "announced": int64(0)})
			c.Write([]byte{2, 9, 0})
			return // connection stays open, the frame never completes
		case "eof":
			c.CloseWrite()
			return
		default:
			nxFatal("unknown raw frame kind %q", f.Kind)
		}
	}
}

var nfIncomplete int32 // scenarios of this process that ran into their deadline

func nfExec(mat *nxMaterial, out *nxOut, s nfScenario) {
	r := &nfRun{s: s, mat: mat, out: out, nodes: map[int]*nfNode{}}
	r.ev(obj{"e": "reset", "fault": s.Fault, "victim": s.Victim, "n": s.N, "dom": s.Dom})
	for i := 1; i <= s.N; i++ {
		// fresh identities per scenario: a connection that strays into a listener of another scenario (a sender that keeps
		// re-dialling an address whose port has been re-used) can never be authenticated there
		k, err := ecdsa.GenerateKey(elliptic.P256(), rand.Reader)
		if err != nil {
			nxFatal("key: %v", err)
		}
		r.nodes[i] = &nfNode{id: i, ident: &nxIdent{Bytes: nxSelfSigned(&k.PublicKey, k), signer: k}, recv: true}
	}
	if s.Fault == "install" {
		k, err := ecdsa.GenerateKey(elliptic.P256(), rand.Reader)
		if err != nil {
			nxFatal("key: %v", err)
		}
		r.extra = &nxIdent{Bytes: nxSelfSigned(&k.PublicKey, k), signer: k}
	}
	for i := 1; i <= s.N; i++ {
		n := r.nodes[i]
		v := i == s.Victim
		switch {
		case v && s.Fault == "down":
			n.recv = false
			r.reserve(n)
		case v && s.Fault == "late":
			r.reserve(n)
		case v && s.Fault == "stalled":
			n.recv = false
			r.rawServer(n, false)
		case v && s.Fault == "rec":
			r.rawServer(n, true)
		default:
			if err := r.serve(n, "127.0.0.1:0"); err != nil {
				nxFatal("listen: %v", err)
			}
		}
	}
	for i := 1; i <= s.N; i++ {
		n := r.nodes[i]
		n.parties = comm.SocketRemoteParties{}
		for j := 1; j <= s.N; j++ {
			if j == i {
				continue
			}
			n.parties[j] = comm.NewSocketRemoteParty(comm.PartyConnectionConfig{
				AuthFunc: nxHonestAuth(n.ident, nxDom(s.Dom)), Domain: nxDom(s.Dom), Id: j, Endpoint: r.nodes[j].addr, TlsCAs: mat.pool}, nfLogger{r: r, node: i})
		}
	}
	if s.Fault == "install" {
		// the stalling peers connect FIRST; everybody else dials (lazily, on the first Send) after them
		for _, k := range s.Stall {
			r.staller(k)
		}
		time.Sleep(100 * time.Millisecond)
	}
	inconclusive := ""
	var wg sync.WaitGroup
	if s.Fault == "late" {
		wg.Add(1)
		go func() {
			defer wg.Done()
			time.Sleep(time.Duration(s.LateMs) * time.Millisecond)
			n := r.nodes[s.Victim]
			n.release()
			if err := r.serve(n, n.addr); err != nil {
				inconclusive = "the late peer could not re-use its port: " + err.Error()
				return
			}
			r.ev(obj{"e": "up", "node": n.id})
		}()
	}
	for pi, p := range s.Progs {
		wg.Add(1)
		go r.sender(pi, p, &wg)
	}
	for ci, rc := range s.Raw {
		wg.Add(1)
		go r.rawConn(ci, rc, &wg)
	}
	done := make(chan struct{})
	go func() { wg.Wait(); close(done) }()
	timeout := time.Duration(s.TimeoutMs) * time.Millisecond
	flood := false
	for _, p := range s.Progs {
		flood = flood || p.Flood > 0
	}
	if atomic.LoadInt32(&nfIncomplete) >= 3 && !flood && timeout > 5*time.Second {
		timeout = 5 * time.Second // three scenarios already ran into the full deadline: the transport is broken for good
	}
	deadline := time.Now().Add(timeout)
	progsDone := false
	for time.Now().Before(deadline) {
		if !progsDone {
			select {
			case <-done:
				progsDone = true
			case <-time.After(2 * time.Millisecond):
			}
			continue
		}
		if atomic.LoadInt64(&r.received) >= atomic.LoadInt64(&r.expected) {
			break
		}
		time.Sleep(2 * time.Millisecond)
	}
	complete := progsDone && atomic.LoadInt64(&r.received) >= atomic.LoadInt64(&r.expected)
	if !complete {
		atomic.AddInt32(&nfIncomplete, 1)
	}
	time.Sleep(time.Duration(s.GraceMs) * time.Millisecond) // duplicates / spurious deliveries would show up now
	r.ev(obj{"e": "end", "complete": complete, "progs_done": progsDone, "received": atomic.LoadInt64(&r.received),
		"expected": atomic.LoadInt64(&r.expected), "inconclusive": inconclusive})
	for _, n := range r.nodes {
		if n.stop != nil {
			n.stop()
		}
	}
	for _, f := range r.closers {
		f()
	}
	r.holdMu.Lock()
	for _, c := range r.hold {
		c.Close()
	}
	r.holdMu.Unlock()
}

func nxRunFR() {
	out := nxNewOut()
	var job nfJob
	readJob(&job)
	mat := nxLoadMaterial(job.Material)
	// the driver's own frame codec must agree with the specification's byte vectors
	for ns, want := range job.Vectors {
		var n uint32
		fmt.Sscan(ns, &n)
		hdr := make([]byte, 5)
		binary.LittleEndian.PutUint32(hdr[1:], n)
		same := len(want) == 4
		for i := 0; same && i < 4; i++ {
			same = int(hdr[1+i]) == want[i]
		}
		if !same {
			nxFatal("frame codec of the driver disagrees with spec/Net.tla for length %s: %v vs %v", ns, hdr[1:], want)
		}
	}
	out.line(obj{"e": "ready", "vectors": len(job.Vectors)})
	parallel(len(job.Scenarios), job.Workers, func(i int) {
		s := job.Scenarios[i]
		out.line(obj{"e": "start", "t": s.ID})
		nfExec(mat, out, s)
		out.line(obj{"e": "fin", "t": s.ID})
	})
	out.line(obj{"e": "done"})
}

func init() {
	commands["net-mat"] = func() {
		m := nxGenMaterial()
		b, err := json.Marshal(m)
		if err != nil {
			nxFatal("marshal: %v", err)
		}
		os.Stdout.Write(b)
	}
	commands["net-hs"] = nxRunHS
	commands["net-fr"] = nxRunFR
}
