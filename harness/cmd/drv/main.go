// Command drv is the conformance harness driver: one sub-command per engine. Every sub-command reads a JSON job on
// stdin, drives the real IBM/TSS code and writes newline-delimited JSON events on stdout.
package main

import (
	"fmt"
	"os"
)

var commands = map[string]func(){}

func main() {
	if len(os.Args) < 2 {
		fmt.Fprintln(os.Stderr, "usage: drv <engine>")
		os.Exit(2)
	}
	f, ok := commands[os.Args[1]]
	if !ok {
		fmt.Fprintf(os.Stderr, "unknown engine %q\n", os.Args[1])
		os.Exit(2)
	}
	f()
}
