package main

import (
	"context"
	"crypto/hmac"
	"crypto/sha256"
	"fmt"
	"math/rand"
	"runtime"
	"strings"
	"sync"
	"time"

	discovery "github.com/IBM/TSS/disc"

	"verif/harness/internal/scripted"
)

// ---- job ---------------------------------------------------------------------------------------------------------

type discAdv struct {
	From int    `json:"from"`
	To   int    `json:"to"`
	T    string `json:"t"`   // "M" | "Q" | "R"
	Tag  int    `json:"tag"` // the id the tag is bound to
	View []int  `json:"view"`
}

type discCase struct {
	Cfg        int       `json:"cfg"` // index of the configuration group (echoed)
	Members    []int     `json:"members"`
	Starters   []int     `json:"starters"`
	Byz        []int     `json:"byz"`
	NonMembers []int     `json:"nonmembers"`
	E          int       `json:"e"`
	DeadlineMs int       `json:"deadline_ms"`
	Adv        []discAdv `json:"adv"`
	AdvRounds  int       `json:"adv_rounds"` // the adversarial messages are sent that many more times, one round per interval (a member that retransmits like the honest ones)
	Seed       int64     `json:"seed"`
	Policy     string    `json:"policy"` // "random" | "starve:<id>" | "lifo"
	IntervalUs int       `json:"interval_us"`
	// IDMap maps the identifiers used in this case (and in the recorded trace) to the real 16-bit identifiers the code runs
	// with; it must preserve the order (views are sorted by the code). Absent: identity.
	IDMap map[string]int `json:"idmap"`
}

type discJob struct {
	Cases   []discCase `json:"cases"`
	Workers int        `json:"workers"`
}

type discWire struct {
	from, to int
	data     []byte
}

type discRun struct {
	real   map[int]int
	abs    map[int]int
	c      discCase
	topic  []byte
	tagOf  map[string]int
	mu     sync.Mutex // protects links and lines (global sequence = order in lines)
	links  map[[2]int][]discWire
	order  [][2]int
	lines  []obj
	t      int
	honest map[int]bool
}

func discTag(topic []byte, id int) []byte {
	h := hmac.New(sha256.New, topic)
	h.Write([]byte{byte(id), byte(id >> 8)})
	return h.Sum(nil)
}

func discEncode(t string, tag []byte, view []int) []byte {
	b := []byte{map[string]byte{"M": 1, "Q": 2, "R": 3}[t]}
	b = append(b, tag...)
	for _, v := range view {
		b = append(b, byte(v), byte(v>>8))
	}
	return b
}

// independent decoder of the synchroniser wire format
func (r *discRun) decode(b []byte) (t string, tag int, view []int) {
	t, tag, view = "?", -1, []int{}
	if len(b) < 33 {
		return
	}
	switch b[0] {
	case 1:
		t = "M"
	case 2:
		t = "Q"
	case 3:
		t = "R"
	}
	if id, ok := r.tagOf[string(b[1:33])]; ok {
		tag = id
	}
	for i := 33; i+1 < len(b); i += 2 {
		view = append(view, r.toAbs(int(b[i])|int(b[i+1])<<8))
	}
	return
}

func (r *discRun) toAbs(re int) int {
	if a, ok := r.abs[re]; ok {
		return a
	}
	return -re - 1
}

// discGate: the Logger of one member; the first debug line containing `key` that the member emits blocks until the scheduler has
// delivered what it held back (policy "gate:<member>:<held-back sender>:<key>"): a message handled exactly between two steps of
// Synchronize (the model's Snap / Check / Query steps are separate actions)
type discGate struct {
	scripted.Logger
	key     string
	once    sync.Once
	hit     chan struct{}
	release chan struct{}
}

func (g *discGate) Debugf(format string, a ...interface{}) {
	if strings.Contains(format, g.key) {
		g.once.Do(func() {
			close(g.hit)
			select {
			case <-g.release:
			case <-time.After(2 * time.Second):
			}
		})
	}
}

func (r *discRun) toReal(a int) int {
	if re, ok := r.real[a]; ok {
		return re
	}
	return a
}

func (r *discRun) logOut(from int, to []int, data []byte) {
	t, tag, view := r.decode(data)
	r.mu.Lock()
	defer r.mu.Unlock()
	r.lines = append(r.lines, obj{"t": r.t, "e": "out", "m": from, "to": to, "ty": t, "tag": tag, "view": view})
	for _, d := range to {
		if !r.honest[d] {
			continue
		}
		k := [2]int{from, d}
		if _, ok := r.links[k]; !ok {
			r.order = append(r.order, k)
		}
		r.links[k] = append(r.links[k], discWire{from: from, to: d, data: append([]byte(nil), data...)})
	}
}

func (r *discRun) log(l obj) {
	r.mu.Lock()
	l["t"] = r.t
	r.lines = append(r.lines, l)
	r.mu.Unlock()
}

func discExec(t int, c discCase) []obj {
	rng := rand.New(rand.NewSource(c.Seed))
	r := &discRun{c: c, t: t, links: map[[2]int][]discWire{}, tagOf: map[string]int{}, honest: map[int]bool{}}
	r.topic = make([]byte, 32)
	rng.Read(r.topic)
	isByz := map[int]bool{}
	for _, b := range c.Byz {
		isByz[b] = true
	}
	all := append(append([]int{}, c.Members...), c.NonMembers...)
	r.real, r.abs = map[int]int{}, map[int]int{}
	for _, id := range all {
		re := id
		if v, ok := c.IDMap[fmt.Sprint(id)]; ok {
			re = v
		}
		r.real[id] = re
		r.abs[re] = id
		r.tagOf[string(discTag(r.topic, re))] = id
	}
	// identifiers that occur only inside adversarial views (neither members nor listed outsiders) are renamed as well
	for k, v := range c.IDMap {
		var id int
		if _, err := fmt.Sscan(k, &id); err == nil {
			if _, known := r.real[id]; !known {
				r.real[id] = v
				r.abs[v] = id
			}
		}
	}
	var membership []uint16
	for _, m := range c.Members {
		membership = append(membership, uint16(r.real[m]))
		if !isByz[m] {
			r.honest[m] = true
		}
	}
	r.lines = append(r.lines, obj{"t": t, "e": "reset", "cfg": c.Cfg, "seed": c.Seed, "policy": c.Policy, "adv": len(c.Adv)})
	firstOut := map[int]chan struct{}{}
	var foMu sync.Mutex
	// policy "gate:<member>:<sender held back>:<key>"
	var gate *discGate
	gateMember, gateHeld := -1, -1
	if strings.HasPrefix(c.Policy, "gate:") {
		parts := strings.SplitN(c.Policy, ":", 4)
		if len(parts) == 4 {
			fmt.Sscan(parts[1], &gateMember)
			fmt.Sscan(parts[2], &gateHeld)
			gate = &discGate{key: parts[3], hit: make(chan struct{}), release: make(chan struct{})}
		}
	}
	members := map[int]*discovery.Member{}
	for _, m := range c.Members {
		if isByz[m] {
			continue
		}
		m := m
		var others []int
		for _, o := range c.Members {
			if o != m {
				others = append(others, o)
			}
		}
		var lg discovery.Logger = scripted.Logger{}
		if gate != nil && m == gateMember {
			lg = gate
		}
		members[m] = &discovery.Member{
			Membership: membership, ID: uint16(r.real[m]), Logger: lg,
			Broadcast: func(msg []byte) {
				r.logOut(m, others, msg)
				foMu.Lock()
				if ch, ok := firstOut[m]; ok && ch != nil {
					close(ch)
					firstOut[m] = nil
				}
				foMu.Unlock()
			},
			Send: func(msg []byte, to uint16) { r.logOut(m, []int{r.toAbs(int(to))}, msg) },
		}
	}
	deadline := time.Duration(c.DeadlineMs) * time.Millisecond
	interval := time.Duration(c.IntervalUs) * time.Microsecond
	if interval == 0 {
		interval = time.Millisecond
	}
	var wg sync.WaitGroup
	returned := make(chan int, len(c.Starters))
	startOne := func(m int) {
		foMu.Lock()
		ch := make(chan struct{})
		firstOut[m] = ch
		foMu.Unlock()
		defer func() {
			// registration is the first thing Synchronize does but cannot be observed; the member's first announcement proves
			// it has happened, so nothing else is scheduled before (a delivery racing with the registration would be
			// dropped by the code and accepted by the model, or vice versa)
			select {
			case <-ch:
			case <-time.After(deadline):
			}
		}()
		r.log(obj{"e": "start", "m": m})
		wg.Add(1)
		go func() {
			defer wg.Done()
			ctx, cancel := context.WithTimeout(context.Background(), deadline)
			defer cancel()
			err := members[m].Synchronize(ctx, func(list []uint16) {
				l := make([]int, len(list))
				for i, x := range list {
					l[i] = r.toAbs(int(x))
				}
				r.log(obj{"e": "done", "m": m, "list": l})
			}, r.topic, c.E, interval)
			es := ""
			if err != nil {
				es = err.Error()
			}
			r.log(obj{"e": "ret", "m": m, "err": es})
			returned <- m
		}()
	}
	toStart := append([]int{}, c.Starters...)
	rng.Shuffle(len(toStart), func(i, j int) { toStart[i], toStart[j] = toStart[j], toStart[i] })
	adv := append([]discAdv{}, c.Adv...)
	nRet := 0
	steps := 0
	hard := time.Now().Add(deadline + 3*time.Second)
	starve := -1
	if len(c.Policy) > 7 && c.Policy[:7] == "starve:" {
		fmt.Sscan(c.Policy[7:], &starve)
	}
	deliver := func(from, to int, data []byte, isAdv bool) {
		ty, tag, view := r.decode(data)
		r.log(obj{"e": "deliver", "from": from, "to": to, "ty": ty, "tag": tag, "view": view, "adv": isAdv})
		func() {
			defer func() {
				if p := recover(); p != nil {
					r.log(obj{"e": "panic", "m": to, "what": fmt.Sprint(p)})
				}
			}()
			members[to].HandleMessage(uint16(r.toReal(from)), data)
		}()
	}
	advRounds := c.AdvRounds
	lastRound := time.Now()
	gateDone := false
	for nRet < len(c.Starters) && time.Now().Before(hard) {
		if gate != nil && !gateDone {
			select {
			case <-gate.hit:
				// the gated member sits between two steps of Synchronize: everything the held-back sender has for it arrives now
				// (the gated member first, then everybody else: the sender was late for all of them)
				var held []discWire
				r.mu.Lock()
				for _, k := range append([][2]int{{gateHeld, gateMember}}, r.order...) {
					if k[0] == gateHeld && len(r.links[k]) > 0 {
						held = append(held, r.links[k]...)
						r.links[k] = nil
					}
				}
				r.mu.Unlock()
				for _, w := range held {
					deliver(w.from, w.to, w.data, false)
				}
				close(gate.release)
				gateDone = true
			default:
			}
		}
		if len(adv) == 0 && advRounds > 0 && time.Since(lastRound) >= time.Duration(c.IntervalUs)*time.Microsecond {
			adv = append([]discAdv{}, c.Adv...)
			advRounds--
			lastRound = time.Now()
		}
		// collect candidate actions
		r.mu.Lock()
		var nonEmpty [][2]int
		for _, k := range r.order {
			if gate != nil && !gateDone && k[0] == gateHeld {
				continue
			}
			if len(r.links[k]) > 0 && k[0] != starve {
				nonEmpty = append(nonEmpty, k)
			}
		}
		steps++
		if (len(nonEmpty) == 0 || steps > 150) && starve >= 0 {
			nonEmpty = nil
			for _, k := range r.order {
				if len(r.links[k]) > 0 {
					nonEmpty = append(nonEmpty, k)
				}
			}
		}
		r.mu.Unlock()
		nact := len(nonEmpty)
		if len(toStart) > 0 {
			nact++
		}
		if len(adv) > 0 {
			nact++
		}
		if nact == 0 {
			select {
			case <-returned:
				nRet++
			case <-time.After(200 * time.Microsecond):
			}
			continue
		}
		a := rng.Intn(nact)
		switch {
		case a < len(nonEmpty):
			k := nonEmpty[a]
			if c.Policy == "lifo" && rng.Intn(10) < 7 {
				k = nonEmpty[len(nonEmpty)-1]
			}
			r.mu.Lock()
			w := r.links[k][0]
			r.links[k] = r.links[k][1:]
			r.mu.Unlock()
			deliver(w.from, w.to, w.data, false)
		case a == len(nonEmpty) && len(toStart) > 0:
			startOne(toStart[0])
			toStart = toStart[1:]
		default:
			x := adv[0]
			adv = adv[1:]
			if r.honest[x.To] {
				rv := make([]int, len(x.View))
				for i, v := range x.View {
					rv[i] = r.toReal(v)
				}
				deliver(x.From, x.To, discEncode(x.T, discTag(r.topic, r.toReal(x.Tag)), rv), true)
			}
		}
		select {
		case <-returned:
			nRet++
		default:
		}
		runtime.Gosched()
		if rng.Intn(4) == 0 {
			time.Sleep(time.Duration(rng.Intn(300)) * time.Microsecond)
		}
	}
	hung := nRet < len(c.Starters)
	if !hung {
		wg.Wait()
	}
	r.mu.Lock()
	defer r.mu.Unlock()
	r.lines = append(r.lines, obj{"t": t, "e": "end", "hung": hung})
	return r.lines
}

func init() {
	commands["disc"] = func() {
		var job discJob
		readJob(&job)
		em := newEmitter()
		defer em.flush()
		parallel(len(job.Cases), job.Workers, func(i int) {
			em.lines(discExec(i, job.Cases[i]))
		})
	}
}
