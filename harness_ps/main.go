// psown: PS key generation and the blind-signing pipeline linked against the dependency versions the mpc/ps module itself pins
// (go.mod of /repo/mpc/ps: mathlib v0.0.2), not the newer ones that the all-in-one harness resolves.  Same record format as the
// full-stack driver (harness/cmd/drv/stack.go), so spec/DKGTrace.tla evaluates the same monitors.
package main

import (
	"context"
	"crypto/sha256"
	"encoding/asn1"
	"encoding/hex"
	"encoding/json"
	"fmt"
	"math/rand"
	"os"
	"sort"
	"sync"
	"time"

	math "github.com/IBM/mathlib"
	"github.com/IBM/TSS/mpc/ps"
)

type obj = map[string]interface{}

type psCase struct {
	N      int   `json:"n"`
	T      int   `json:"t"`
	IDs    []int `json:"ids"`
	Seed   int64 `json:"seed"`
	MsgLen int   `json:"msglen"`
}

type nolog struct{}

func (nolog) DebugEnabled() bool             { return false }
func (nolog) Debugf(string, ...interface{}) {}
func (nolog) Infof(string, ...interface{})  {}
func (nolog) Warnf(string, ...interface{})  {}
func (nolog) Errorf(string, ...interface{}) {}

type netMsg struct {
	to, from int
	data     []byte
	bc       bool
}

func publicPart(data []byte) string {
	if len(data) == 0 {
		return ""
	}
	var sd ps.StoredData
	if _, err := asn1.Unmarshal(data, &sd); err != nil {
		return "unparsable"
	}
	h := sha256.New()
	h.Write(sd.ThresholdPK)
	for _, p := range sd.PublicKeys {
		h.Write([]byte{0})
		h.Write(p)
	}
	return hex.EncodeToString(h.Sum(nil))
}

func run(t int, c psCase) []obj {
	rng := rand.New(rand.NewSource(c.Seed))
	var mu sync.Mutex
	lines := []obj{{"t": t, "e": "reset", "cfg": 0, "scheme": "ps", "mode": "direct", "n": c.N, "th": c.T, "ids": c.IDs, "seed": c.Seed,
		"policy": "random", "fault": obj{"silent_peer": 0, "after": 0, "withhold_idx": -1}, "byz": false, "nsigners": 0, "owndeps": true}}
	log := func(o obj) { mu.Lock(); o["t"] = t; lines = append(lines, o); mu.Unlock() }
	ids := append([]int(nil), c.IDs...)
	sort.Ints(ids)
	all := make([]uint16, len(ids))
	for i, id := range ids {
		all[i] = uint16(id)
	}
	parties := map[int]*ps.TPS{}
	var queue []netMsg
	for _, id := range ids {
		id := id
		p := &ps.TPS{Logger: nolog{}, Party: uint16(id), Curve: math.Curves[1], MessageLength: c.MsgLen}
		parties[id] = p
		log(obj{"e": "init", "node": id, "parties": ids, "threshold": c.T})
		p.Init(all, c.T, func(msg []byte, bc bool, to uint16) {
			kind := -1
			if len(msg) > 0 {
				kind = int(msg[0])
			}
			log(obj{"e": "bsend", "node": id, "kind": kind, "bc": bc, "to": int(to)})
			mu.Lock()
			defer mu.Unlock()
			if bc {
				for _, o := range ids {
					if o != id {
						queue = append(queue, netMsg{o, id, append([]byte(nil), msg...), true})
					}
				}
			} else {
				queue = append(queue, netMsg{int(to), id, append([]byte(nil), msg...), false})
			}
		})
	}
	type res struct {
		node int
		data []byte
		err  string
	}
	results := make(chan res, len(ids))
	ctx, cancel := context.WithTimeout(context.Background(), 150*time.Second)
	defer cancel()
	for _, id := range ids {
		id := id
		log(obj{"e": "call", "node": id})
		go func() {
			defer func() {
				if r := recover(); r != nil {
					results <- res{id, nil, fmt.Sprint("PANIC: ", r)}
				}
			}()
			data, err := parties[id].KeyGen(ctx)
			es := ""
			if err != nil {
				es = err.Error()
			}
			results <- res{id, data, es}
		}()
	}
	got := map[int]res{}
	hard := time.Now().Add(170 * time.Second)
	for len(got) < len(ids) && time.Now().Before(hard) {
		mu.Lock()
		var m *netMsg
		if len(queue) > 0 {
			// per-link FIFO: the first queued message of a random link
			i := rng.Intn(len(queue))
			k := [2]int{queue[i].from, queue[i].to}
			for j := range queue {
				if [2]int{queue[j].from, queue[j].to} == k {
					i = j
					break
				}
			}
			x := queue[i]
			queue = append(queue[:i], queue[i+1:]...)
			m = &x
		}
		mu.Unlock()
		if m != nil {
			kind := -1
			if len(m.data) > 0 {
				kind = int(m.data[0])
			}
			h := ""
			if kind == 2 {
				n := len(m.data)
				if n > 9 {
					n = 9
				}
				h = hex.EncodeToString(m.data[1:n])
			} else if kind == 3 {
				d := sha256.Sum256(m.data[1:])
				h = hex.EncodeToString(d[:8])
			}
			log(obj{"e": "onmsg", "node": m.to, "kind": kind, "from": m.from, "bc": m.bc, "h": h})
			func() {
				defer func() {
					if r := recover(); r != nil {
						log(obj{"e": "crash", "hang": false, "detail": fmt.Sprint("OnMsg panicked: ", r)})
					}
				}()
				parties[m.to].OnMsg(m.data, uint16(m.from), m.bc)
			}()
		} else {
			select {
			case r := <-results:
				got[r.node] = r
			case <-time.After(200 * time.Microsecond):
			}
			continue
		}
		select {
		case r := <-results:
			got[r.node] = r
		default:
		}
	}
	panicked := false
	for _, id := range ids {
		r, ok := got[id]
		if !ok {
			log(obj{"e": "kgret", "node": id, "returned": false, "ok": false, "err": "did not return", "pub": ""})
			continue
		}
		if len(r.err) >= 6 && r.err[:6] == "PANIC:" {
			panicked = true
			log(obj{"e": "crash", "hang": false, "detail": fmt.Sprintf("KeyGen of party %d: %s", id, r.err)})
		}
		log(obj{"e": "kgret", "node": id, "returned": true, "ok": r.err == "" && len(r.data) > 0, "err": r.err, "pub": publicPart(r.data)})
	}
	// the pipeline on a sample of the subsets of size >= t
	okNodes := []int{}
	for _, id := range ids {
		if r, ok := got[id]; ok && r.err == "" && len(r.data) > 0 {
			okNodes = append(okNodes, id)
		}
	}
	if !panicked && len(okNodes) >= c.T {
		total, bad, perr := exercise(c, all, okNodes, func(id int) []byte { return got[id].data }, rng)
		log(obj{"e": "signcheck", "subsets": total, "bad": bad, "panic": perr})
	}
	mu.Lock()
	defer mu.Unlock()
	return append(append([]obj(nil), lines...), obj{"t": t, "e": "end", "elapsed_ms": 0, "messages": 0, "early": 0})
}

func exercise(c psCase, parties []uint16, okNodes []int, dataOf func(int) []byte, rng *rand.Rand) (total int, bad []string, perr string) {
	defer func() {
		if p := recover(); p != nil {
			perr = fmt.Sprint(p)
		}
	}()
	bad = []string{}
	signers := map[int]*ps.TPS{}
	var tpk []byte
	for _, id := range okNodes {
		s := &ps.TPS{Logger: nolog{}, Party: uint16(id), Curve: math.Curves[1], MessageLength: c.MsgLen}
		s.Init(parties, c.T, func([]byte, bool, uint16) {})
		if err := s.SetShareData(dataOf(id)); err != nil {
			return 0, []string{fmt.Sprintf("SetShareData(%d): %v", id, err)}, ""
		}
		pk, err := s.ThresholdPK()
		if err != nil {
			return 0, []string{fmt.Sprintf("ThresholdPK(%d): %v", id, err)}, ""
		}
		if tpk == nil {
			tpk = pk
		}
		signers[id] = s
	}
	var prover ps.Prover
	if err := prover.Init(math.Curves[1], c.MsgLen, tpk, parties); err != nil {
		return 0, []string{"Prover.Init: " + err.Error()}, ""
	}
	var verifier ps.Verifier
	if err := verifier.Init(math.Curves[1], c.MsgLen, tpk); err != nil {
		return 0, []string{"Verifier.Init: " + err.Error()}, ""
	}
	msg := make([][]byte, c.MsgLen)
	for i := range msg {
		msg[i] = make([]byte, rng.Intn(30))
		rng.Read(msg[i])
	}
	req, secret := prover.Blind(msg)
	reqBytes := req.Bytes()
	witness := map[int]ps.SignatureWitness{}
	for _, id := range okNodes {
		sig, err := signers[id].Sign(context.Background(), reqBytes)
		if err != nil {
			bad = append(bad, fmt.Sprintf("Sign(%d): %v", id, err))
			continue
		}
		w, err := prover.UnBlind(uint16(id), sig, &secret)
		if err != nil {
			bad = append(bad, fmt.Sprintf("UnBlind(%d): %v", id, err))
			continue
		}
		witness[id] = w
	}
	// subsets: first t, last t, all, and seeded ones in seeded order
	var subs [][]int
	subs = append(subs, append([]int(nil), okNodes[:c.T]...), append([]int(nil), okNodes[len(okNodes)-c.T:]...), append([]int(nil), okNodes...))
	for i := 0; i < 12; i++ {
		k := c.T + rng.Intn(len(okNodes)-c.T+1)
		perm := rng.Perm(len(okNodes))[:k]
		s := make([]int, k)
		for j, x := range perm {
			s[j] = okNodes[x]
		}
		subs = append(subs, s)
	}
	for _, sub := range subs {
		total++
		var who []uint16
		var ws []ps.SignatureWitness
		ok := true
		for _, id := range sub {
			w, have := witness[id]
			ok = ok && have
			who = append(who, uint16(id))
			ws = append(ws, w)
		}
		if !ok {
			continue
		}
		pi := prover.ProveKnowledgeOfSignature(&secret, who, ws)
		if err := verifier.Verify(pi.Bytes()); err != nil {
			bad = append(bad, fmt.Sprintf("subset %v: %v", sub, err))
		}
	}
	if len(bad) > 6 {
		bad = append(bad[:6], fmt.Sprintf("... %d more", len(bad)-6))
	}
	return
}

func main() {
	var job struct {
		Cases []psCase `json:"cases"`
		Base  int      `json:"base"`
	}
	if err := json.NewDecoder(os.Stdin).Decode(&job); err != nil {
		fmt.Fprintln(os.Stderr, err)
		os.Exit(2)
	}
	enc := json.NewEncoder(os.Stdout)
	for i, c := range job.Cases {
		for _, l := range run(job.Base+i, c) {
			enc.Encode(l)
		}
	}
}
